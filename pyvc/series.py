"""D-series: truncated Laurent series in one indeterminate with coefficients in any commutative or
non-commutative ring of pyvc values (Fraction, Sym, Free, nested Series in another indeterminate).

A Series is  sum_{i < len(c)} c[i] * x^(val+i)  + O(x^(val+len(c))).  The repository code only applies ring
operations and exp/log/atan/sqrt/pow to its arguments, so running it on Series inputs computes the
Taylor/Laurent expansion of what it computes over R (ring homomorphism R[[x]] -> truncated ring).
"""
from __future__ import annotations

from fractions import Fraction

from . import terms as T
from .terms import Sym, Unsupported


def _is_exact_zero(c):
    if isinstance(c, (int, Fraction)):
        return c == 0
    if isinstance(c, Sym):
        return c.is_const() and c.const() == 0
    if hasattr(c, "is_exact_zero"):
        return c.is_exact_zero()
    return False


def _scalar(c):
    return isinstance(c, (int, Fraction, Sym)) and not isinstance(c, bool)


class Series:
    _vc_domain = "series"
    __slots__ = ("var", "val", "c")

    def __init__(self, var, val, coeffs):
        self.var = var
        c = list(coeffs)
        # strip exact leading zeros (keeps absolute precision)
        while len(c) > 1 and _is_exact_zero(c[0]):
            c.pop(0)
            val += 1
        self.val = val
        self.c = c

    # -- constructors -----------------------------------------------------------------------------------
    @staticmethod
    def indet(var, order, coeff=1):
        """coeff * x + O(x^order)"""
        return Series(var, 1, [coeff] + [Fraction(0)] * (order - 2)) if order >= 2 else Series(var, 1, [coeff])

    @staticmethod
    def const(var, c, order):
        return Series(var, 0, [c] + [Fraction(0)] * (order - 1))

    @property
    def prec(self):
        """absolute precision: terms of x^k are known for k < prec"""
        return self.val + len(self.c)

    def coeff(self, k):
        i = k - self.val
        if i < 0:
            return Fraction(0)
        if i >= len(self.c):
            raise Unsupported(f"series coefficient x^{k} requested beyond precision {self.prec}")
        return self.c[i]

    def __repr__(self):
        return f"Series({self.var}; val={self.val}; {self.c})"

    def _lift(self, o):
        if isinstance(o, Series):
            if o.var != self.var:
                # treat the other series as a coefficient (nested)
                return Series(self.var, 0, [o] + [Fraction(0)] * (len(self.c) + max(self.val, 0) - 1 if len(self.c) + self.val > 1 else 0))
            return o
        if isinstance(o, float):
            o = T.to_q(o)
        if _scalar(o) or hasattr(o, "_vc_domain"):
            n = max(self.prec, 1)
            return Series(self.var, 0, [o] + [Fraction(0)] * (n - 1))
        return NotImplemented

    # -- ring operations ------------------------------------------------------------------------------------
    def __add__(self, o):
        o = self._lift(o)
        if o is NotImplemented:
            return NotImplemented
        v = min(self.val, o.val)
        p = min(self.prec, o.prec)
        out = []
        for k in range(v, p):
            out.append(self.coeff(k) + o.coeff(k))
        if not out:
            out = [Fraction(0)]
        return Series(self.var, v, out)

    __radd__ = __add__

    def __neg__(self):
        return Series(self.var, self.val, [-x for x in self.c])

    def __pos__(self):
        return self

    def __sub__(self, o):
        o = self._lift(o)
        if o is NotImplemented:
            return NotImplemented
        return self + (-o)

    def __rsub__(self, o):
        o = self._lift(o)
        if o is NotImplemented:
            return NotImplemented
        return o + (-self)

    def __mul__(self, o):
        o = self._lift(o)
        if o is NotImplemented:
            return NotImplemented
        n = min(len(self.c), len(o.c))
        out = []
        for k in range(n):
            acc = Fraction(0)
            for i in range(k + 1):
                a, b = self.c[i], o.c[k - i]
                if _is_exact_zero(a) or _is_exact_zero(b):
                    continue
                acc = acc + a * b
            out.append(acc)
        return Series(self.var, self.val + o.val, out)

    def __rmul__(self, o):
        o = self._lift(o)
        if o is NotImplemented:
            return NotImplemented
        return o * self

    def inverse(self):
        a0 = self.c[0]
        if _is_exact_zero(a0):
            raise ZeroDivisionError("series with zero leading coefficient")
        inv0 = _inv(a0)
        n = len(self.c)
        out = [inv0]
        for k in range(1, n):
            acc = Fraction(0)
            for i in range(1, k + 1):
                if _is_exact_zero(self.c[i]):
                    continue
                acc = acc + self.c[i] * out[k - i]
            out.append(-(inv0 * acc))
        return Series(self.var, -self.val, out)

    def __truediv__(self, o):
        if isinstance(o, Series) and o.var == self.var:
            return self * o.inverse()
        if isinstance(o, float):
            o = T.to_q(o)
        if _scalar(o):
            return Series(self.var, self.val, [x / o if not isinstance(x, int) else Fraction(x) / o for x in self.c])
        return NotImplemented

    def __rtruediv__(self, o):
        return self._lift(o) * self.inverse()

    def __pow__(self, k):
        if isinstance(k, Sym) and k.is_const():
            k = k.const()
        if isinstance(k, Fraction) and k.denominator == 1:
            k = int(k)
        if isinstance(k, int):
            if k == 0:
                return Series(self.var, 0, [Fraction(1)] + [Fraction(0)] * (len(self.c) - 1))
            if k < 0:
                return self.inverse() ** (-k)
            r = None
            base = self
            while k:
                if k & 1:
                    r = base if r is None else r * base
                k >>= 1
                if k:
                    base = base * base
            return r
        return self.spow(k)

    # -- calculus ---------------------------------------------------------------------------------------------
    def deriv(self):
        return Series(self.var, self.val - 1, [(self.val + i) * x for i, x in enumerate(self.c)])

    def integ(self, const=Fraction(0)):
        """formal antiderivative with constant term const (no x^-1 term allowed)"""
        out = {}
        for i, x in enumerate(self.c):
            k = self.val + i
            if k == -1:
                if not _is_exact_zero(x):
                    raise Unsupported("integration of x^-1 term")
                continue
            out[k + 1] = x / (k + 1) if not isinstance(x, int) else Fraction(x, k + 1)
        lo = min([0] + list(out))
        hi = self.prec + 1
        cs = [out.get(k, Fraction(0)) for k in range(lo, hi)]
        cs[0 - lo] = cs[0 - lo] + const
        return Series(self.var, lo, cs)

    def _log(self):
        """log of a series; a non-zero valuation v contributes v * ln(x) with the atom ln(<indeterminate>)"""
        from . import vnp

        if self.val != 0:
            unit = Series(self.var, 0, list(self.c))
            return unit._log() + self.val * T.app("ln", T.var(self.var))
        c0 = self.c[0]
        if _is_exact_zero(c0):
            raise Unsupported("log of a series with vanishing leading coefficient")
        return self._compose(vnp.log(c0), lambda s: s.inverse())

    def _regular(self, what):
        if what == "log":
            return None
        if self.val < 0:
            raise Unsupported(f"{what} of a series with negative valuation")
        # constant term and remainder
        c0 = self.coeff(0) if self.val == 0 else Fraction(0)
        return c0

    def _compose(self, f0, dfun):
        """f(self) for f with f' given as a function of a series: f(s) = f(c0) + int f'(s) s' dx"""
        d = dfun(self) * self.deriv()
        return d.integ(f0)

    def _vc_func(self, name):
        from . import vnp

        c0 = self._regular(name)
        if name == "exp":
            # E' = s' E  -> recursion
            n = self.prec
            sp = self.deriv()  # val >= 0 here (s regular) or larger
            e = [vnp.exp(c0) if not _is_exact_zero(c0) else Fraction(1)]
            for k in range(1, n):
                acc = Fraction(0)
                for i in range(0, k):
                    # coefficient of x^i in s' times e[k-1-i]
                    spi = sp.coeff(i) if i < sp.prec else Fraction(0)
                    if _is_exact_zero(spi):
                        continue
                    acc = acc + spi * e[k - 1 - i]
                e.append(acc / k)
            return Series(self.var, 0, e)
        if name == "log":
            return self._log()
        if name == "arctan":
            return self._compose(vnp.arctan(c0), lambda s: (1 + s * s).inverse())
        if name == "sqrt":
            return self.spow(Fraction(1, 2))
        if name in ("real", "conj"):
            return self
        if name == "imag":
            return Series(self.var, 0, [Fraction(0)] * max(self.prec, 1))
        raise Unsupported(f"{name} of a series")

    def spow(self, e):
        """self ** e for symbolic / rational e (self.val == 0 with unit constant term)"""
        from . import rt

        if self.val != 0:
            raise Unsupported("non-integer power of a series with non-zero valuation")
        c0 = self.c[0]
        y0 = rt._vcpow(c0, e)
        # y' = e s' y / s  -> y = y0 * exp(e * log(s/c0))
        u = (self / c0)._vc_func("log")  # log(1 + ...)
        return (u * e)._vc_func("exp") * y0

    def exp(self):
        return self._vc_func("exp")

    def log(self):
        return self._vc_func("log")

    def sqrt(self):
        return self._vc_func("sqrt")

    def arctan(self):
        return self._vc_func("arctan")

    # comparisons are not meaningful
    def __bool__(self):
        raise Unsupported("truth value of a series")

    def truncate(self, prec):
        if prec >= self.prec:
            return self
        return Series(self.var, self.val, self.c[: max(prec - self.val, 1)])

    def coeffs_upto(self, kmax):
        """list of coefficients of x^0..x^kmax (requires val >= 0)"""
        if self.val < 0:
            for i in range(-self.val):
                if not _is_exact_zero(self.c[i]):
                    raise Unsupported("negative powers present")
        return [self.coeff(k) for k in range(0, kmax + 1)]


def _inv(a):
    if isinstance(a, int):
        return Fraction(1, a)
    if isinstance(a, (Fraction, Sym)):
        return 1 / a
    if hasattr(a, "inverse"):
        return a.inverse()
    raise Unsupported(f"inverse of series coefficient {type(a).__name__}")
