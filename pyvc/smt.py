"""SMT back end: term IR -> z3 (primary) with cvc5 (CLI, SMT-LIB2 dump of the same query) for z3's unknowns.

Encoding assumptions (part of A1/A3 in DESIGN.md):
  * 'real' variables are mathematical reals, 'int' variables mathematical integers;
  * x**k with concrete integer k is a repeated product (x**0 == 1 is folded before we get here);
  * every application node f(args) is an uninterpreted function (congruence only) -- transcendental facts
    are added by the caller as explicit lemma instances;
  * a // b and a % b follow Python's floor semantics; the encoding is z3's div/mod, which coincides
    for b > 0 -- the side condition b > 0 is added to the *goal* (must be proved).
"""
from __future__ import annotations

import os
import subprocess
import tempfile
import time
from fractions import Fraction

import z3

from . import terms as T
from .terms import Sym, Unsupported

STATS = dict(z3_queries=0, z3_time=0.0, cvc5_queries=0, cvc5_time=0.0, unknown=0)
TIMEOUT_MS = [int(os.environ.get("PYVC_Z3_TIMEOUT_MS", "20000"))]


class Enc:
    def __init__(self):
        self.memo = {}
        self.funcs = {}
        self.side = []  # side conditions that must hold (divisor > 0)

    def var(self, name, sort):
        return z3.Int(name) if sort == "int" else z3.Real(name)

    def go(self, n):
        r = self.memo.get(n)
        if r is not None:
            return r
        t = T.node(n)
        op = t[0]
        if op == "c":
            q = t[1]
            r = z3.IntVal(int(q)) if q.denominator == 1 else z3.RealVal(str(q))
        elif op == "v":
            r = self.var(t[1], t[2])
        elif op == "bvar":
            r = z3.Bool(t[1])
        elif op == "true":
            r = z3.BoolVal(True)
        elif op == "false":
            r = z3.BoolVal(False)
        elif op == "+":
            r = self.go(t[1]) + self.go(t[2])
        elif op == "*":
            r = self.go(t[1]) * self.go(t[2])
        elif op == "/":
            a, b = self.go(t[1]), self.go(t[2])
            if a.is_int():
                a = z3.ToReal(a)
            if b.is_int():
                b = z3.ToReal(b)
            r = a / b
        elif op == "neg":
            r = -self.go(t[1])
        elif op == "^":
            b = self.go(t[1])
            r = b
            for _ in range(t[2] - 1):
                r = r * b
        elif op == "app" and t[1] == "abs" and len(t[2]) == 1:
            a = self.go(t[2][0])
            r = z3.If(a >= 0, a, -a)
        elif op == "app":
            args = [self.go(a) for a in t[2]]
            args = [z3.ToReal(a) if a.is_int() else a for a in args]
            key = (t[1], len(args))
            f = self.funcs.get(key)
            if f is None:
                if args:
                    f = z3.Function(f"f_{t[1]}_{len(args)}", *([z3.RealSort()] * (len(args) + 1)))
                else:
                    f = z3.Real(f"c_{t[1]}")
                self.funcs[key] = f
            r = f(*args) if args else f
        elif op == "ite":
            a, b = self.go(t[2]), self.go(t[3])
            if a.is_int() != b.is_int():
                a = z3.ToReal(a) if a.is_int() else a
                b = z3.ToReal(b) if b.is_int() else b
            r = z3.If(self.go(t[1]), a, b)
        elif op in ("<", "<=", "==", "!="):
            a, b = self.go(t[1]), self.go(t[2])
            r = {"<": a < b, "<=": a <= b, "==": a == b, "!=": a != b}[op]
        elif op == "and":
            r = z3.And(self.go(t[1]), self.go(t[2]))
        elif op == "or":
            r = z3.Or(self.go(t[1]), self.go(t[2]))
        elif op == "not":
            r = z3.Not(self.go(t[1]))
        elif op in ("//", "%"):
            a, b = self.go(t[1]), self.go(t[2])
            if not (a.is_int() and b.is_int()):
                raise Unsupported("// or % on non-integers")
            self.side.append(b > 0)
            r = a / b if op == "//" else a % b
        else:
            raise Unsupported(f"smt: {op}")
        self.memo[n] = r
        return r


def _cvc5(smt2, timeout_s):
    t0 = time.time()
    with tempfile.NamedTemporaryFile("w", suffix=".smt2", delete=False) as f:
        f.write("(set-logic ALL)\n" + smt2 + "\n(check-sat)\n")
        path = f.name
    try:
        out = subprocess.run(
            ["/usr/bin/cvc5", f"--tlimit={int(timeout_s*1000)}", "--nl-ext-tplanes", path],
            capture_output=True, text=True, timeout=timeout_s + 5,
        ).stdout.strip()
    except Exception:  # timeout or missing binary
        out = "unknown"
    finally:
        os.unlink(path)
    STATS["cvc5_queries"] += 1
    STATS["cvc5_time"] += time.time() - t0
    return out.splitlines()[0] if out else "unknown"


def check(assumptions, goal=None, timeout_ms=None, want_model=False):
    """sat-check of  /\\ assumptions /\\ not goal.

    Returns ("unsat", None) | ("sat", model dict) | ("unknown", reason).
    With goal None checks satisfiability of the assumptions alone.
    """
    enc = Enc()
    s = z3.Solver()
    s.set("timeout", timeout_ms or TIMEOUT_MS[0])
    for a in assumptions:
        a = T._b(a) if not isinstance(a, Sym) else a
        s.add(enc.go(a.n))
    if goal is not None:
        goal = T._b(goal) if not isinstance(goal, Sym) else goal
        g = enc.go(goal.n)
        if enc.side:
            g = z3.And(g, *enc.side)
        s.add(z3.Not(g))
    elif enc.side:
        pass
    t0 = time.time()
    r = s.check()
    STATS["z3_queries"] += 1
    STATS["z3_time"] += time.time() - t0
    if r == z3.unsat:
        return "unsat", None
    if r == z3.sat:
        m = s.model()
        model = {}
        for d in m.decls():
            if d.arity() == 0:
                v = m[d]
                try:
                    if z3.is_algebraic_value(v):
                        v = v.approx(20)
                    if z3.is_rational_value(v) or z3.is_int_value(v):
                        model[d.name()] = Fraction(v.numerator_as_long(), v.denominator_as_long())
                    elif z3.is_true(v) or z3.is_false(v):
                        model[d.name()] = bool(z3.is_true(v))
                    else:
                        model[d.name()] = str(v)
                except Exception:
                    model[d.name()] = str(v)
        return "sat", model
    # unknown: try cvc5 on the same query
    STATS["unknown"] += 1
    res = _cvc5(s.to_smt2().replace("(check-sat)", ""), (timeout_ms or TIMEOUT_MS[0]) / 1000)
    if res == "unsat":
        return "unsat", None
    return "unknown", s.reason_unknown()


def prove(assumptions, goal, timeout_ms=None):
    """True iff assumptions |= goal is established."""
    r, _ = check(assumptions, goal, timeout_ms)
    return r == "unsat"


def satisfiable(assumptions, timeout_ms=None):
    r, m = check(assumptions, None, timeout_ms)
    return r, m
