"""Term IR of pyvc: hash-consed DAG nodes wrapped by the operator-overloading class ``Sym``.

The real (AST-transformed) repository code is executed by CPython over these objects; every
arithmetic operation builds a node.  Nothing is simplified beyond constant folding and the unit laws
(x+0, x*1, x*0, x/1, x**0, x**1) -- normal forms are computed by ``pyvc.poly`` on demand.
"""
from __future__ import annotations

import math
import cmath
from fractions import Fraction

Q = Fraction


class Unsupported(Exception):
    """The verifier (not the code under verification) cannot handle a construct -> checker error."""


class PathAbort(BaseException):
    """Raised by the explorer to abandon an infeasible path (BaseException: repo code must not catch it)."""


# ----------------------------------------------------------------------------------------------------
# nodes
# ----------------------------------------------------------------------------------------------------
_intern: dict = {}
_nodes: list = []  # id -> node tuple


def _mk(*t):
    i = _intern.get(t)
    if i is None:
        i = len(_nodes)
        _nodes.append(t)
        _intern[t] = i
    return i


def node(i):
    return _nodes[i]


BOOL_OPS = {"<", "<=", "==", "!=", "and", "or", "not", "true", "false", "bvar"}

# the explorer installs itself here; called with a Sym of boolean sort, returns a Python bool
_decider = [None]


def to_q(x):
    """Exact rational from a Python number (floats are refused unless integral)."""
    if isinstance(x, Fraction):
        return x
    if isinstance(x, bool):
        return Fraction(int(x))
    if isinstance(x, int):
        return Fraction(x)
    try:
        import numpy as _np

        if isinstance(x, _np.integer):
            return Fraction(int(x))
        if isinstance(x, _np.bool_):
            return Fraction(int(bool(x)))
        if isinstance(x, _np.floating):
            x = float(x)
    except ImportError:  # pragma: no cover
        pass
    if isinstance(x, float):
        if x != x or x in (math.inf, -math.inf):
            raise Unsupported(f"non-finite float {x!r} reached exact arithmetic")
        if x == int(x) and abs(x) < 2**53:
            return Fraction(int(x))
        # binary fractions with few bits (0.5, 0.25, 1.5, ...) are exact and harmless
        fr = Fraction(x)
        if fr.denominator <= 2**20:
            return fr
        raise Unsupported(f"inexact float {x!r} reached exact arithmetic (a shim/transform gap)")
    if isinstance(x, complex):
        if x.imag == 0:
            return to_q(x.real)
        raise Unsupported(f"complex constant {x!r} reached exact arithmetic")
    raise TypeError(f"not a number: {type(x).__name__}")


def is_num(x):
    return isinstance(x, (int, Fraction, float)) and not isinstance(x, bool) or isinstance(x, bool)


class Sym:
    __slots__ = ("n",)

    def __init__(self, n):
        self.n = n

    # -- inspection -------------------------------------------------------------------------------
    @property
    def op(self):
        return _nodes[self.n][0]

    @property
    def args(self):
        return _nodes[self.n][1:]

    def is_const(self):
        return _nodes[self.n][0] == "c"

    def const(self):
        return _nodes[self.n][1]

    def is_bool(self):
        return _nodes[self.n][0] in BOOL_OPS

    def __repr__(self):
        return show(self.n)

    def __hash__(self):
        return hash(("Sym", self.n))

    def __format__(self, spec):  # T6: logging / __str__ helpers format numbers
        return repr(self)

    # -- arithmetic -------------------------------------------------------------------------------
    def __add__(self, o):
        o = lift(o)
        return NotImplemented if o is NotImplemented else add(self, o)

    def __radd__(self, o):
        o = lift(o)
        return NotImplemented if o is NotImplemented else add(o, self)

    def __sub__(self, o):
        o = lift(o)
        return NotImplemented if o is NotImplemented else add(self, neg(o))

    def __rsub__(self, o):
        o = lift(o)
        return NotImplemented if o is NotImplemented else add(o, neg(self))

    def __mul__(self, o):
        o = lift(o)
        return NotImplemented if o is NotImplemented else mul(self, o)

    def __rmul__(self, o):
        o = lift(o)
        return NotImplemented if o is NotImplemented else mul(o, self)

    def __truediv__(self, o):
        o = lift(o)
        return NotImplemented if o is NotImplemented else div(self, o)

    def __rtruediv__(self, o):
        o = lift(o)
        return NotImplemented if o is NotImplemented else div(o, self)

    def __floordiv__(self, o):
        o = lift(o)
        return NotImplemented if o is NotImplemented else intop("//", self, o)

    def __rfloordiv__(self, o):
        o = lift(o)
        return NotImplemented if o is NotImplemented else intop("//", o, self)

    def __mod__(self, o):
        o = lift(o)
        return NotImplemented if o is NotImplemented else intop("%", self, o)

    def __rmod__(self, o):
        o = lift(o)
        return NotImplemented if o is NotImplemented else intop("%", o, self)

    def __neg__(self):
        return neg(self)

    def __pos__(self):
        return self

    def __pow__(self, k):
        return power(self, k)

    def __rpow__(self, b):
        return power(lift(b), self)

    def __abs__(self):
        return app("abs", self)

    # numpy calls these on object arrays (np.exp(arr) -> elem.exp()) ; the shims normally intercept first
    def exp(self):
        return app("exp", self)

    def log(self):
        return app("ln", self)

    def sqrt(self):
        return app("sqrt", self)

    def arctan(self):
        return app("atan", self)

    def conjugate(self):
        return self

    conj = conjugate

    @property
    def real(self):
        # explicit .real / .imag of a value that may be complex is NOT simplified (A2 treats values as elements of a
        # commutative Q-algebra): constants are real, everything else becomes an uninterpreted Re / Im atom
        return self if self.is_const() else app("Re", self)

    @property
    def imag(self):
        return Sym(_mk("c", Q(0))) if self.is_const() else app("Im", self)

    # -- comparisons ------------------------------------------------------------------------------
    def __lt__(self, o):
        return cmp("<", self, lift(o))

    def __le__(self, o):
        return cmp("<=", self, lift(o))

    def __gt__(self, o):
        return cmp("<", lift(o), self)

    def __ge__(self, o):
        return cmp("<=", lift(o), self)

    def __eq__(self, o):
        o = lift(o)
        if o is NotImplemented:
            return NotImplemented
        return cmp("==", self, o)

    def __ne__(self, o):
        o = lift(o)
        if o is NotImplemented:
            return NotImplemented
        return cmp("!=", self, o)

    def __and__(self, o):
        return band(self, o)

    def __rand__(self, o):
        return band(o, self)

    def __or__(self, o):
        return bor(self, o)

    def __ror__(self, o):
        return bor(o, self)

    def __invert__(self):
        return bnot(self)

    def __bool__(self):
        t = _nodes[self.n]
        if t[0] == "true":
            return True
        if t[0] == "false":
            return False
        if t[0] == "c":
            return t[1] != 0
        if t[0] not in BOOL_OPS:
            # truthiness of a number: x != 0
            return bool(cmp("!=", self, const(0)))
        d = _decider[0]
        if d is None:
            raise Unsupported(f"symbolic branch outside an exploration: {self!r}")
        return d(self)

    # -- conversions ------------------------------------------------------------------------------
    def __float__(self):
        if self.is_const():
            return float(self.const())
        raise Unsupported(f"float() of symbolic value {self!r}")

    def __int__(self):
        if self.is_const() and self.const().denominator == 1:
            return int(self.const())
        raise Unsupported(f"int() of symbolic value {self!r}")

    def __index__(self):
        if self.is_const() and self.const().denominator == 1:
            return int(self.const())
        raise Unsupported(f"symbolic value used as an index: {self!r}")

    def __complex__(self):
        return complex(float(self))


TRUE = Sym(_mk("true"))
FALSE = Sym(_mk("false"))


def const(q):
    return Sym(_mk("c", to_q(q)))


ZERO = const(0)
ONE = const(1)


def var(name, sort="real"):
    return Sym(_mk("v", name, sort))


def bvar(name):
    return Sym(_mk("bvar", name))


def lift(x):
    if isinstance(x, Sym):
        return x
    if isinstance(x, (bool, int, Fraction, float)):
        return const(x)
    if isinstance(x, complex):
        return const(x)
    try:
        import numpy as _np

        if isinstance(x, _np.generic):
            return const(x.item())
    except ImportError:  # pragma: no cover
        pass
    return NotImplemented


def unlift(s):
    """Sym constant -> Fraction/int, else the Sym itself (keeps exact code exact)."""
    if isinstance(s, Sym) and s.is_const():
        c = s.const()
        return c
    return s


def _ret(s):
    return unlift(s) if False else s


def add(a, b):
    if a.is_const() and b.is_const():
        return const(a.const() + b.const())
    if a.is_const() and a.const() == 0:
        return b
    if b.is_const() and b.const() == 0:
        return a
    # x + (-x) = 0  (keeps "same value" tests such as isclose(q, q) decidable without a solver)
    if (b.op == "neg" and b.args[0] == a.n) or (a.op == "neg" and a.args[0] == b.n):
        return ZERO
    return Sym(_mk("+", a.n, b.n))


def neg(a):
    if a.is_const():
        return const(-a.const())
    if a.op == "neg":
        return Sym(a.args[0])
    return Sym(_mk("neg", a.n))


def mul(a, b):
    if a.is_const() and b.is_const():
        return const(a.const() * b.const())
    for x, y in ((a, b), (b, a)):
        if x.is_const():
            if x.const() == 0:
                return ZERO
            if x.const() == 1:
                return y
    return Sym(_mk("*", a.n, b.n))


def div(a, b):
    if b.is_const():
        if b.const() == 0:
            raise ZeroDivisionError("division by exact zero")
        if a.is_const():
            return const(a.const() / b.const())
        if b.const() == 1:
            return a
    if a.is_const() and a.const() == 0:
        return ZERO
    return Sym(_mk("/", a.n, b.n))


def power(a, k):
    if isinstance(k, Sym) and k.is_const():
        k = k.const()
    if isinstance(k, float):
        k = to_q(k)
    if isinstance(k, Fraction) and k.denominator == 1:
        k = int(k)
    if isinstance(k, bool):
        k = int(k)
    if isinstance(k, int):
        if k == 0:
            return ONE  # Python: x**0 == 1 for every x (A3)
        if k == 1:
            return a
        if a.is_const():
            return const(a.const() ** k)
        if k < 0:
            return div(ONE, power(a, -k))
        return Sym(_mk("^", a.n, k))
    if isinstance(k, Fraction):
        # rational exponent p/q : root atom
        if a.is_const():
            r = exact_root(a.const(), k)
            if r is not None:
                return const(r)
        r = app("root", a, const(k.denominator))
        return power(r, k.numerator)
    if isinstance(k, Sym):
        return app("pow", a, k)
    raise Unsupported(f"power with exponent {k!r}")


def exact_root(c, k):
    """c**(p/q) for rational c if exact, else None."""
    p, q = k.numerator, k.denominator
    if c < 0:
        return None

    def iroot(n, q):
        r = round(n ** (1.0 / q)) if n < 2**52 else int(round(math.exp(math.log(n) / q)))
        for cand in (r - 1, r, r + 1):
            if cand >= 0 and cand**q == n:
                return cand
        return None

    a, b = iroot(c.numerator, q), iroot(c.denominator, q)
    if a is None or b is None:
        return None
    return Fraction(a, b) ** p


def intop(op, a, b):
    if a.is_const() and b.is_const():
        x, y = a.const(), b.const()
        if op == "//":
            return const(x // y)
        return const(x % y)
    return Sym(_mk(op, a.n, b.n))


def app(f, *args):
    args = [lift(a) for a in args]
    if f == "ln" and args[0].is_const():
        if args[0].const() == 1:
            return ZERO
    if f == "exp" and args[0].is_const() and args[0].const() == 0:
        return ONE
    if f == "atan" and args[0].is_const() and args[0].const() == 0:
        return ZERO
    if f in ("sqrt",) and args[0].is_const():
        r = exact_root(args[0].const(), Fraction(1, 2))
        if r is not None:
            return const(r)
    if f == "root" and args[0].is_const():
        r = exact_root(args[0].const(), Fraction(1, int(args[1].const())))
        if r is not None:
            return const(r)
    if f == "abs" and args[0].is_const():
        return const(abs(args[0].const()))
    return Sym(_mk("app", f, tuple(a.n for a in args)))


def ite(c, a, b):
    c = lift(c)
    if c.op == "true":
        return lift(a)
    if c.op == "false":
        return lift(b)
    a, b = lift(a), lift(b)
    if a.n == b.n:
        return a
    return Sym(_mk("ite", c.n, a.n, b.n))


def cmp(op, a, b):
    if b is NotImplemented:
        return NotImplemented
    if a.is_bool() or b.is_bool():
        # equality of booleans
        if op == "==":
            return bor(band(a, b), band(bnot(a), bnot(b)))
        if op == "!=":
            return bnot(cmp("==", a, b))
    if a.is_const() and b.is_const():
        x, y = a.const(), b.const()
        r = {"<": x < y, "<=": x <= y, "==": x == y, "!=": x != y}[op]
        return TRUE if r else FALSE
    if a.n == b.n:
        return TRUE if op in ("<=", "==") else FALSE
    return Sym(_mk(op, a.n, b.n))


def _b(x):
    if isinstance(x, Sym):
        if x.op == "c":
            return TRUE if x.const() != 0 else FALSE
        return x
    return TRUE if x else FALSE


def band(a, b):
    a, b = _b(a), _b(b)
    if a.op == "false" or b.op == "false":
        return FALSE
    if a.op == "true":
        return b
    if b.op == "true":
        return a
    return Sym(_mk("and", a.n, b.n))


def bor(a, b):
    a, b = _b(a), _b(b)
    if a.op == "true" or b.op == "true":
        return TRUE
    if a.op == "false":
        return b
    if b.op == "false":
        return a
    return Sym(_mk("or", a.n, b.n))


def bnot(a):
    a = _b(a)
    if a.op == "true":
        return FALSE
    if a.op == "false":
        return TRUE
    if a.op == "not":
        return Sym(a.args[0])
    return Sym(_mk("not", a.n))


def conj(*xs):
    r = TRUE
    for x in xs:
        r = band(r, x)
    return r


# ----------------------------------------------------------------------------------------------------
# printing
# ----------------------------------------------------------------------------------------------------
def show(n, depth=6):
    t = _nodes[n]
    op = t[0]
    if op == "c":
        return str(t[1])
    if op in ("v", "bvar"):
        return t[1]
    if op in ("true", "false"):
        return op
    if depth <= 0:
        return "…"
    if op in ("+", "*", "/", "<", "<=", "==", "!=", "and", "or", "//", "%"):
        return f"({show(t[1], depth-1)} {op} {show(t[2], depth-1)})"
    if op == "neg":
        return f"-{show(t[1], depth-1)}"
    if op == "not":
        return f"!{show(t[1], depth-1)}"
    if op == "^":
        return f"{show(t[1], depth-1)}^{t[2]}"
    if op == "app":
        return f"{t[1]}({', '.join(show(a, depth-1) for a in t[2])})"
    if op == "ite":
        return f"ite({show(t[1], depth-1)}, {show(t[2], depth-1)}, {show(t[3], depth-1)})"
    return str(t)


# ----------------------------------------------------------------------------------------------------
# traversal helpers
# ----------------------------------------------------------------------------------------------------
def children(n):
    t = _nodes[n]
    op = t[0]
    if op in ("c", "v", "bvar", "true", "false"):
        return ()
    if op == "^":
        return (t[1],)
    if op == "app":
        return t[2]
    return t[1:]


def free_vars(*syms):
    seen, out, stack = set(), set(), [s.n for s in syms if isinstance(s, Sym)]
    while stack:
        n = stack.pop()
        if n in seen:
            continue
        seen.add(n)
        t = _nodes[n]
        if t[0] in ("v", "bvar"):
            out.add(t[1])
        stack.extend(children(n))
    return out


def dag_size(*syms):
    seen, stack = set(), [s.n for s in syms if isinstance(s, Sym)]
    while stack:
        n = stack.pop()
        if n in seen:
            continue
        seen.add(n)
        stack.extend(children(n))
    return len(seen)


def apps_in(*syms):
    """All application nodes (fname, argnodes) reachable."""
    seen, out, stack = set(), [], [s.n for s in syms if isinstance(s, Sym)]
    while stack:
        n = stack.pop()
        if n in seen:
            continue
        seen.add(n)
        t = _nodes[n]
        if t[0] == "app":
            out.append(n)
        stack.extend(children(n))
    return out


# ----------------------------------------------------------------------------------------------------
# substitution, differentiation
# ----------------------------------------------------------------------------------------------------
def _varname(x):
    """variable name of x (a str or a variable Sym); anything else is a harness error, never silently 'no such variable'"""
    if isinstance(x, str):
        return x
    if isinstance(x, Sym) and _nodes[x.n][0] in ("v", "bvar"):
        return _nodes[x.n][1]
    raise Unsupported(f"not a variable: {x!r}")


def subst(s, mapping, nodes=None):
    """mapping: {var name: Sym | number}; nodes: {node id: Sym} replaces whole sub-terms (used to abstract a sub-term that was PROVED equal to a lemma variable).
    Rebuilds through the smart constructors."""
    mp = {_varname(k): lift(v) for k, v in mapping.items()}
    memo = {}
    nodes = nodes or {}

    def go(n):
        r = memo.get(n)
        if r is not None:
            return r
        if n in nodes:
            memo[n] = lift(nodes[n])
            return memo[n]
        t = _nodes[n]
        op = t[0]
        if op in ("v", "bvar"):
            r = mp.get(t[1], Sym(n))
        elif op in ("c", "true", "false"):
            r = Sym(n)
        elif op == "+":
            r = add(go(t[1]), go(t[2]))
        elif op == "*":
            r = mul(go(t[1]), go(t[2]))
        elif op == "/":
            r = div(go(t[1]), go(t[2]))
        elif op == "neg":
            r = neg(go(t[1]))
        elif op == "^":
            r = power(go(t[1]), t[2])
        elif op == "app":
            r = app(t[1], *[go(a) for a in t[2]])
        elif op == "ite":
            r = ite(go(t[1]), go(t[2]), go(t[3]))
        elif op in ("<", "<=", "==", "!="):
            r = cmp(op, go(t[1]), go(t[2]))
        elif op == "and":
            r = band(go(t[1]), go(t[2]))
        elif op == "or":
            r = bor(go(t[1]), go(t[2]))
        elif op == "not":
            r = bnot(go(t[1]))
        elif op in ("//", "%"):
            r = intop(op, go(t[1]), go(t[2]))
        else:
            raise Unsupported(f"subst: {op}")
        memo[n] = r
        return r

    return go(lift(s).n)


# derivative rules of the transcendental atoms (trusted calculus rules, listed in evidence)
DERIV_RULES = {
    "atanh": lambda a: div(ONE, add(ONE, neg(mul(a[0], a[0])))),
    "sinh": lambda a: app("cosh", a[0]),
    "cosh": lambda a: app("sinh", a[0]),
    "ln": lambda a: div(ONE, a[0]),
    "exp": lambda a: app("exp", a[0]),
    "atan": lambda a: div(ONE, add(ONE, mul(a[0], a[0]))),
    "sqrt": lambda a: div(ONE, mul(const(2), app("sqrt", a[0]))),
}


def diff(s, x):
    """Formal derivative d s / d x (x: variable name or variable)."""
    x = _varname(x)
    memo = {}

    def go(n):
        r = memo.get(n)
        if r is not None:
            return r
        t = _nodes[n]
        op = t[0]
        if op == "v":
            r = ONE if t[1] == x else ZERO
        elif op == "c":
            r = ZERO
        elif op == "+":
            r = add(go(t[1]), go(t[2]))
        elif op == "neg":
            r = neg(go(t[1]))
        elif op == "*":
            r = add(mul(go(t[1]), Sym(t[2])), mul(Sym(t[1]), go(t[2])))
        elif op == "/":
            u, v = Sym(t[1]), Sym(t[2])
            du, dv = go(t[1]), go(t[2])
            r = add(div(du, v), neg(div(mul(u, dv), mul(v, v))))
        elif op == "^":
            k = t[2]
            r = mul(mul(const(k), power(Sym(t[1]), k - 1)), go(t[1]))
        elif op == "app":
            f, a = t[1], [Sym(i) for i in t[2]]
            if f in DERIV_RULES:
                r = mul(DERIV_RULES[f](a), go(t[2][0]))
            elif f == "root":
                # d t^(1/q) = t^(1/q) / (q t) dt
                q = a[1]
                r = mul(div(Sym(n), mul(q, a[0])), go(t[2][0]))
            elif f == "pow":
                # d (b^e) = b^e (e' ln b + e b'/b)
                b, e = a
                r = mul(Sym(n), add(mul(go(t[2][1]), app("ln", b)), div(mul(e, go(t[2][0])), b)))
            else:
                # uninterpreted function: chain rule with opaque partial derivatives D<i>_f
                r = ZERO
                for i_, an in enumerate(t[2]):
                    da = go(an)
                    if da.n != ZERO.n:
                        r = add(r, mul(app(f"D{i_}_{f}", *a), da))
        elif op == "ite":
            r = ite(Sym(t[1]), go(t[2]), go(t[3]))
        else:
            raise Unsupported(f"diff: {op}")
        memo[n] = r
        return r

    return go(lift(s).n)


# ----------------------------------------------------------------------------------------------------
# numeric evaluation (witness replay, cross-check)
# ----------------------------------------------------------------------------------------------------
NUM_FUNCS = {
    "ln": cmath.log,
    "exp": cmath.exp,
    "atan": cmath.atan,
    "sqrt": cmath.sqrt,
    "abs": abs,
    "root": lambda x, q: complex(x) ** (1.0 / q.real),
    "pow": lambda x, y: complex(x) ** y,
    "I": lambda: 1j,
    "sin": cmath.sin,
    "cos": cmath.cos,
    "tanh": cmath.tanh,
}


def evalf(s, env, funcs=None):
    """Evaluate numerically; env: {var name: number}. Returns complex or bool."""
    fn = dict(NUM_FUNCS)
    if funcs:
        fn.update(funcs)
    memo = {}

    def go(n):
        if n in memo:
            return memo[n]
        t = _nodes[n]
        op = t[0]
        if op == "c":
            r = complex(float(t[1]))
        elif op in ("v", "bvar"):
            r = env[t[1]]
            if op == "v":
                r = complex(r)
        elif op == "true":
            r = True
        elif op == "false":
            r = False
        elif op == "+":
            r = go(t[1]) + go(t[2])
        elif op == "*":
            r = go(t[1]) * go(t[2])
        elif op == "/":
            r = go(t[1]) / go(t[2])
        elif op == "neg":
            r = -go(t[1])
        elif op == "^":
            r = go(t[1]) ** t[2]
        elif op == "app":
            f = t[1]
            if f not in fn:
                raise Unsupported(f"evalf: no numeric implementation for {f}")
            r = fn[f](*[go(a) for a in t[2]])
        elif op == "ite":
            r = go(t[2]) if go(t[1]) else go(t[3])
        elif op == "<":
            r = go(t[1]).real < go(t[2]).real
        elif op == "<=":
            r = go(t[1]).real <= go(t[2]).real
        elif op == "==":
            r = go(t[1]) == go(t[2])
        elif op == "!=":
            r = go(t[1]) != go(t[2])
        elif op == "and":
            r = go(t[1]) and go(t[2])
        elif op == "or":
            r = go(t[1]) or go(t[2])
        elif op == "not":
            r = not go(t[1])
        elif op == "//":
            r = complex(math.floor(go(t[1]).real / go(t[2]).real))
        elif op == "%":
            a, b = go(t[1]).real, go(t[2]).real
            r = complex(a - b * math.floor(a / b))
        else:
            raise Unsupported(f"evalf: {op}")
        memo[n] = r
        return r

    return go(lift(s).n)


# ----------------------------------------------------------------------------------------------------
# high-precision numeric evaluation (falsification before proof; never used to *prove* anything)
# ----------------------------------------------------------------------------------------------------
def evalmp(s, env, digits=60):
    """Evaluate with mpmath at the given number of digits.  Uninterpreted functions get deterministic
    pseudo-random values depending on their (rounded) arguments, so congruence is respected."""
    import mpmath as mp
    import hashlib

    mp.mp.dps = digits
    consts = {
        "pi": lambda: mp.pi, "euler_gamma": lambda: mp.euler, "I": lambda: mp.mpc(0, 1),
        "zeta2": lambda: mp.zeta(2), "zeta3": lambda: mp.zeta(3), "zeta4": lambda: mp.zeta(4), "zeta5": lambda: mp.zeta(5),
        "zeta6": lambda: mp.zeta(6), "zeta7": lambda: mp.zeta(7),
    }
    fn = {
        "ln": mp.log, "exp": mp.exp, "atan": mp.atan, "sqrt": mp.sqrt, "abs": abs, "sin": mp.sin, "cos": mp.cos,
        "tan": mp.tan, "tanh": mp.tanh, "root": lambda x, q: mp.power(x, mp.mpf(1) / q), "pow": lambda x, y: mp.power(x, y),
        "Gamma": mp.gamma, "digamma": mp.digamma, "atanh": mp.atanh, "sinh": mp.sinh, "cosh": mp.cosh,
        "Re": mp.re, "Im": mp.im, "conj": mp.conj, "atan2": lambda y, x: mp.atan2(mp.re(y), mp.re(x)), "arg": mp.arg,
    }
    memo = {}

    def unint(f, args):
        h = hashlib.sha256((f + "|" + "|".join(mp.nstr(a, 25) for a in args)).encode()).digest()
        re = int.from_bytes(h[:8], "big") / 2**64
        im = int.from_bytes(h[8:16], "big") / 2**64
        return mp.mpc(0.5 + re, im - 0.5)

    def go(n):
        if n in memo:
            return memo[n]
        t = _nodes[n]
        op = t[0]
        if op == "c":
            r = mp.mpf(t[1].numerator) / t[1].denominator
        elif op == "v":
            v = env[t[1]]
            r = mp.mpf(v.numerator) / v.denominator if isinstance(v, Fraction) else mp.mpmathify(v)
        elif op == "bvar":
            r = env[t[1]]
        elif op == "true":
            r = True
        elif op == "false":
            r = False
        elif op == "+":
            r = go(t[1]) + go(t[2])
        elif op == "*":
            r = go(t[1]) * go(t[2])
        elif op == "/":
            r = go(t[1]) / go(t[2])
        elif op == "neg":
            r = -go(t[1])
        elif op == "^":
            r = go(t[1]) ** t[2]
        elif op == "app":
            f = t[1]
            args = [go(a) for a in t[2]]
            if f in consts and not args:
                r = consts[f]()
            elif f in fn:
                r = fn[f](*args)
            elif f.startswith("polygamma") and f[9:].isdigit() and len(args) == 1:
                r = mp.polygamma(int(f[9:]), args[0])      # contract atoms of ekore's cern_polygamma (contracts/harmonic_spec.py)
            else:
                r = unint(f, args)
        elif op == "ite":
            r = go(t[2]) if go(t[1]) else go(t[3])
        elif op in ("<", "<="):
            a, b = mp.re(go(t[1])), mp.re(go(t[2]))
            r = a < b if op == "<" else a <= b
        elif op == "==":
            r = go(t[1]) == go(t[2])
        elif op == "!=":
            r = go(t[1]) != go(t[2])
        elif op == "and":
            r = go(t[1]) and go(t[2])
        elif op == "or":
            r = go(t[1]) or go(t[2])
        elif op == "not":
            r = not go(t[1])
        elif op == "//":
            r = mp.floor(mp.re(go(t[1])) / mp.re(go(t[2])))
        elif op == "%":
            a, b = mp.re(go(t[1])), mp.re(go(t[2]))
            r = a - b * mp.floor(a / b)
        else:
            raise Unsupported(f"evalmp: {op}")
        memo[n] = r
        return r

    return go(lift(s).n)


def magnitude(s, env, digits=60):
    """(value, scale): value of s and the largest magnitude among the top-level summands (for relative tests)."""
    import mpmath as mp

    s = lift(s)
    terms, stack = [], [(s.n, 1)]
    while stack:
        n, sg = stack.pop()
        t = _nodes[n]
        if t[0] == "+":
            stack.append((t[1], sg))
            stack.append((t[2], sg))
        elif t[0] == "neg":
            stack.append((t[1], -sg))
        else:
            terms.append((n, sg))
    vals = [evalmp(Sym(n), env, digits) * sg for n, sg in terms]
    tot = sum(vals, mp.mpf(0))
    scale = max([abs(v) for v in vals] + [mp.mpf(10) ** (-30)])
    return tot, scale
