"""numba stand-in (T2): the Python definitions are what is verified; JIT compilation is dropped."""


def _ident(*a, **k):
    if len(a) == 1 and callable(a[0]) and not k:
        return a[0]
    return lambda f: f


njit = jit = cfunc = _ident


class _Any:
    def __getattr__(self, name):
        return _Any()

    def __call__(self, *a, **k):
        return _Any()

    def __getitem__(self, k):
        return _Any()


types = _Any()
boolean = float64 = int64 = int32 = complex128 = uintc = double = _Any()


def carray(p, n, dtype=None):
    return p


class experimental:
    @staticmethod
    def jitclass(spec=None):
        if isinstance(spec, type):
            return spec
        return lambda cls: cls


class typed:
    List = list
    Dict = dict


def __getattr__(name):
    return _Any()
