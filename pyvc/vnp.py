"""numpy stand-in bound to the name ``np`` (and ``math``, ``scipy.special``) inside transformed modules.

Only constructors and the functions numpy cannot run on exact / symbolic scalars are intercepted; everything
else falls through to real numpy acting on ``dtype=object`` arrays.  Every intercepted function is a
trusted library contract (A5): the table in DESIGN.md section 1.3 is what is implemented here.
"""
from __future__ import annotations

import builtins
import sys
import types
from fractions import Fraction

import numpy as _np

from . import terms as T
from .terms import Sym, Unsupported, to_q
from .rt import norm, exact_array, _vcpow, _vcdiv, imag_unit, _EXACT, CQ, FloatDomainError

USED = set()  # names of shim contracts exercised in this process (reported as trusted base)


def _used(name):
    USED.add(name)


class NaNType:
    """the NaN marker (only produced by np.nan / np.full(.., np.nan)); arithmetic on it is a checker error."""

    _inst = None

    def __new__(cls):
        if cls._inst is None:
            cls._inst = super().__new__(cls)
        return cls._inst

    def __repr__(self):
        return "NaN"

    def _bad(self, *a):
        raise Unsupported("arithmetic on NaN")

    __add__ = __radd__ = __mul__ = __rmul__ = __sub__ = __rsub__ = __truediv__ = __rtruediv__ = _bad


NAN = NaNType()


class InfType:
    """+-infinity: only comparisons with finite quantities are allowed."""

    def __init__(self, sign=1):
        self.sign = sign

    def __repr__(self):
        return "INF" if self.sign > 0 else "-INF"

    def __format__(self, spec):
        return repr(self)

    def __neg__(self):
        return InfType(-self.sign)

    def __lt__(self, o):
        if isinstance(o, InfType):
            return self.sign < o.sign
        return self.sign < 0

    def __le__(self, o):
        if isinstance(o, InfType):
            return self.sign <= o.sign
        return self.sign < 0

    def __gt__(self, o):
        if isinstance(o, InfType):
            return self.sign > o.sign
        return self.sign > 0

    def __ge__(self, o):
        if isinstance(o, InfType):
            return self.sign >= o.sign
        return self.sign > 0

    def __eq__(self, o):
        return isinstance(o, InfType) and o.sign == self.sign

    def __ne__(self, o):
        return not self.__eq__(o)

    def __hash__(self):
        return hash(("INF", self.sign))

    def _bad(self, *a):
        raise Unsupported("arithmetic on infinity")

    __add__ = __radd__ = __mul__ = __rmul__ = __sub__ = __rsub__ = __truediv__ = __rtruediv__ = _bad


INF = InfType(1)


def _is_scalar(x):
    return not isinstance(x, (_np.ndarray, list, tuple))


def _arr(x):
    if isinstance(x, _np.ndarray) and x.dtype == object:
        return x
    return exact_array(_np.asarray(x, dtype=object) if isinstance(x, (list, tuple)) and _has_obj(x) else _np.asarray(x))


def _has_obj(x):
    for v in x:
        if isinstance(v, (list, tuple, _np.ndarray)):
            if _has_obj(v):
                return True
        elif isinstance(v, (Sym, Fraction)) or hasattr(v, "_vc_domain"):
            return True
    return False


def _scalar_fn(name, symf, exactf=None, real_domain=None):
    def one(x):
        if hasattr(x, "_vc_func"):
            return x._vc_func(name)
        complex_typed = isinstance(x, CQ) or isinstance(x, complex)
        x = norm(x)
        if real_domain is not None and isinstance(x, _EXACT) and not isinstance(x, bool) and not complex_typed and not real_domain(Fraction(x)):
            _used(f"np.{name} of a float-typed argument outside the real domain is nan (numpy semantics)")
            raise FloatDomainError(f"np.{name}({Fraction(x)}) on a float-typed argument: numpy returns nan here (the argument was not made complex)")
        if isinstance(x, _EXACT) and exactf is not None:
            r = exactf(Fraction(x))
            if r is not None:
                return r
        if isinstance(x, (NaNType, InfType)):
            raise Unsupported(f"{name} of {x!r}")
        return norm(symf(T.lift(x)))

    def f(x, *a, **k):
        _used("np." + name)
        if _is_scalar(x):
            return one(x)
        x = _arr(x)
        out = _np.empty(x.shape, dtype=object)
        for idx in _np.ndindex(x.shape):
            out[idx] = one(x[idx])
        return out

    f.__name__ = name
    return f


exp = _scalar_fn("exp", lambda s: T.app("exp", s), lambda q: Fraction(1) if q == 0 else None)
log = _scalar_fn("log", lambda s: T.app("ln", s), lambda q: Fraction(0) if q == 1 else None, real_domain=lambda q: q > 0)
sqrt = _scalar_fn("sqrt", lambda s: T.app("sqrt", s), lambda q: T.exact_root(q, Fraction(1, 2)) if q >= 0 else None, real_domain=lambda q: q >= 0)
arctan = _scalar_fn("arctan", lambda s: T.app("atan", s), lambda q: Fraction(0) if q == 0 else None)
sin = _scalar_fn("sin", lambda s: T.app("sin", s), lambda q: Fraction(0) if q == 0 else None)
cos = _scalar_fn("cos", lambda s: T.app("cos", s), lambda q: Fraction(1) if q == 0 else None)
tan = _scalar_fn("tan", lambda s: T.app("tan", s), lambda q: Fraction(0) if q == 0 else None)
arctanh = _scalar_fn("arctanh", lambda s: T.app("atanh", s), lambda q: Fraction(0) if q == 0 else None)
sinh = _scalar_fn("sinh", lambda s: T.app("sinh", s), lambda q: Fraction(0) if q == 0 else None)
cosh = _scalar_fn("cosh", lambda s: T.app("cosh", s), lambda q: Fraction(1) if q == 0 else None)
tanh = _scalar_fn("tanh", lambda s: T.app("tanh", s), lambda q: Fraction(0) if q == 0 else None)


def _abs1(x):
    if hasattr(x, "_vc_func"):
        return x._vc_func("abs")
    x = norm(x)
    if isinstance(x, _EXACT):
        return builtins.abs(x)
    return T.app("abs", x)


def abs(x, out=None):  # noqa: A001
    if _is_scalar(x):
        return _abs1(x)
    x = _arr(x)
    res = _np.empty(x.shape, dtype=object)
    for idx in _np.ndindex(x.shape):
        res[idx] = _abs1(x[idx])
    if out is not None:      # numpy's in-place form: the buffer is overwritten and returned (it may be the argument itself)
        out[...] = res
        return out
    return res


absolute = abs


def power(x, k):
    return _vcpow(x, k)


def real(x):
    """np.real: identity under the recorded assumption 'value analytically real' (see DESIGN A5)."""
    _used("np.real (identity: value assumed analytically real)")
    if hasattr(x, "_vc_func"):
        return x._vc_func("real")
    return x


def imag(x):
    if hasattr(x, "_vc_func"):
        return x._vc_func("imag")
    if _is_scalar(x):
        x = norm(x)
        if isinstance(x, _EXACT):
            return Fraction(0)
        _used("np.imag of a symbolic value: uninterpreted Im atom")
        return T.app("Im", x)
    x = _arr(x)
    out = _np.empty(x.shape, dtype=object)
    for idx in _np.ndindex(x.shape):
        out[idx] = imag(x[idx])
    return out


def angle(x):
    x = norm(x)
    if isinstance(x, _EXACT):
        return Fraction(0) if x >= 0 else pi
    return T.app("arg", x)


def arctan2(y, x):
    return norm(T.app("atan2", y, x))


def conj(x):
    if hasattr(x, "_vc_func"):
        return x._vc_func("conj")
    return x


conjugate = conj

pi = T.app("pi")
euler_gamma = T.app("euler_gamma")
inf = INF
nan = NAN
newaxis = None


# -- constructors ----------------------------------------------------------------------------------------
def _shape(shape):
    if isinstance(shape, (int, _np.integer)):
        return (int(shape),)
    return tuple(int(s) for s in shape)


def full(shape, fill, dtype=None):
    out = _np.empty(_shape(shape), dtype=object)
    fill = fill if isinstance(fill, (NaNType, InfType)) else norm(fill)
    for idx in _np.ndindex(out.shape):
        out[idx] = fill
    return out


class AbstractArr:
    """array whose leading dimension is symbolic: concrete writes are remembered, every other read is answered by the
    contract-supplied ``reader`` (fresh values satisfying the invariant / arbitrary values); writes are recorded."""

    def __init__(self, shape, fill):
        self.shape, self.fill = shape, fill
        self.writes = []
        self.reader = None

    def _concrete(self, i):
        if isinstance(i, Sym) and i.is_const():
            i = int(i.const())
        return i if isinstance(i, (int, _np.integer)) and not isinstance(i, bool) else None

    def __getitem__(self, i):
        c = self._concrete(i)
        if c is not None:
            for j, val in reversed(self.writes):
                if self._concrete(j) == c:
                    return val
                if self._concrete(j) is None:
                    break
        if self.reader is None:
            raise Unsupported("read from an abstract array without a contract")
        return self.reader(self, i)

    def __setitem__(self, i, val):
        self.writes.append((i, val))


ABSTRACT_ARRAY_HOOK = [None]


def zeros(shape, dtype=None, **k):
    if isinstance(shape, tuple) and shape and isinstance(shape[0], Sym) and not shape[0].is_const():
        arr = AbstractArr(shape, Fraction(0))
        if ABSTRACT_ARRAY_HOOK[0]:
            ABSTRACT_ARRAY_HOOK[0](arr)
        return arr
    if dtype in (int, _np.int_, bool, _np.bool_):
        return _np.zeros(_shape(shape), dtype=dtype)
    return full(shape, Fraction(0))


def empty(shape, dtype=None, **k):
    if dtype in (int, _np.int_, bool, _np.bool_):
        return _np.empty(_shape(shape), dtype=dtype)
    return full(shape, Fraction(0))


def empty_like(a, dtype=None, **k):
    return empty(_np.shape(a))


def ones(shape, dtype=None, **k):
    return full(shape, Fraction(1))


def zeros_like(a, dtype=None, **k):
    return zeros(_np.shape(a))


def ones_like(a, dtype=None, **k):
    return ones(_np.shape(a))


class AbstractDim:
    """an unknown matrix dimension: np.eye(n) / np.identity(n) give the unit of the free algebra."""

    def __init__(self, name="n"):
        self.name = name

    def __repr__(self):
        return f"<dim {self.name}>"


def eye(n, m=None, dtype=None, **k):
    if isinstance(n, AbstractDim):
        from .free import Free

        _used("np.eye(n) for abstract n = unit of the free algebra")
        return Free.one()
    m = n if m is None else m
    out = zeros((n, m))
    for i in range(builtins.min(int(n), int(m))):
        out[i, i] = Fraction(1)
    return out


def identity(n, dtype=None):
    return eye(n)


def array(x, dtype=None, **k):
    if dtype in (int, _np.int_, bool, _np.bool_, str) or (isinstance(dtype, type) and issubclass(dtype, str)):
        return _np.array(x, dtype=dtype)
    if isinstance(x, _np.ndarray):
        a = x.copy()
        return a if a.dtype == object else exact_array(a)
    try:
        a = _np.array(x, dtype=object)
    except ValueError:
        raise
    if a.dtype == object and a.ndim >= 0:
        # strings etc. stay as they are
        flat = a.reshape(-1)
        if flat.size and all(isinstance(v, str) for v in flat):
            return _np.array(x)
    return exact_array(a)


def asarray(x, dtype=None, **k):
    if isinstance(x, _np.ndarray) and x.dtype == object:
        return x
    if hasattr(x, "_vc_domain"):
        return x
    return array(x, dtype=dtype)


def ascontiguousarray(x, dtype=None):
    return asarray(x)


def copy(x):
    return array(x)


class AbstractSeq:
    """a sequence of symbolic length: its end points (where known), its length (where known) and a rule for the element at a given index.  Iterating it requires
    a loop contract (T4).  Slices [s:] / [:-t] and element-wise arithmetic give abstract sequences again (x[1:] - x[:-1] is the sequence of the differences)."""

    def __init__(self, first, last, what="geomspace", elem=None, length=None):
        self.first, self.last, self.what = first, last, what
        self._elem, self.length = elem, length

    def _interior(self, i):
        if self._elem is not None:
            return self._elem(i)
        if isinstance(self.first, Sym) and isinstance(self.last, Sym) and self.first.n == self.last.n:
            return self.first      # geomspace(a, a, k)[i] = a
        if isinstance(self.first, Sym) and isinstance(self.last, Sym):
            _used(f"np.{self.what} with symbolic length: interior elements are uninterpreted functions of (first, last, index)")
            return T.app(f"{self.what}_element", self.first, self.last, T.lift(i))
        raise Unsupported(f"element {i} of an abstract {self.what} sequence")

    def __getitem__(self, i):
        if isinstance(i, slice):
            if i.step not in (None, 1) or (i.start is not None and (not isinstance(i.start, int) or i.start < 0)) or (i.stop is not None and (not isinstance(i.stop, int) or i.stop >= 0)):
                raise Unsupported(f"slice {i} of an abstract {self.what} sequence")
            s0, t0 = i.start or 0, -(i.stop or 0)
            return AbstractSeq(self.first if s0 == 0 else None, self.last if t0 == 0 else None, self.what, elem=(lambda k, s0=s0: self[k + s0]) if s0 else (lambda k: self[k]),
                               length=None if self.length is None else self.length - s0 - t0)
        if isinstance(i, Sym) and i.is_const():
            i = int(i.const())
        if isinstance(i, int) and i == 0 and self.first is not None:
            return self.first
        if isinstance(i, int) and i == -1 and self.last is not None:
            return self.last
        if isinstance(i, int) and i < 0:
            raise Unsupported(f"element {i} of an abstract {self.what} sequence")
        return self._interior(i)

    def __iter__(self):
        raise Unsupported(f"iteration over an abstract {self.what} sequence without a loop contract")

    def __vclen__(self):
        if self.length is None:
            raise Unsupported(f"length of an abstract {self.what} sequence")
        return self.length

    def _map2(self, other, op, swap=False):
        f = (lambda x, y: op(y, x)) if swap else op
        if isinstance(other, AbstractSeq):
            if self.length is not None and other.length is not None:
                from . import poly as _P

                if not _P.prove_zero(T.lift(self.length) - T.lift(other.length))[0]:
                    raise Unsupported(f"element-wise operation on abstract sequences of different lengths ({self.length}, {other.length})")
            both = lambda a, b: None if a is None or b is None else norm(f(a, b))  # noqa: E731
            return AbstractSeq(both(self.first, other.first), both(self.last, other.last), self.what, elem=lambda k: norm(f(self[k], other[k])), length=self.length if self.length is not None else other.length)
        if isinstance(other, _np.ndarray) or isinstance(other, (list, tuple)):
            raise Unsupported(f"operation between an abstract {self.what} sequence and a concrete array")
        one = lambda a: None if a is None else norm(f(a, other))  # noqa: E731
        return AbstractSeq(one(self.first), one(self.last), self.what, elem=lambda k: norm(f(self[k], other)), length=self.length)

    def __add__(self, o):
        return self._map2(o, lambda x, y: x + y)

    def __radd__(self, o):
        return self._map2(o, lambda x, y: x + y, swap=True)

    def __sub__(self, o):
        return self._map2(o, lambda x, y: x - y)

    def __rsub__(self, o):
        return self._map2(o, lambda x, y: x - y, swap=True)

    def __mul__(self, o):
        return self._map2(o, lambda x, y: x * y)

    def __rmul__(self, o):
        return self._map2(o, lambda x, y: x * y, swap=True)

    def __truediv__(self, o):
        return self._map2(o, lambda x, y: _vcdiv(x, y))

    def __rtruediv__(self, o):
        return self._map2(o, lambda x, y: _vcdiv(x, y), swap=True)

    def __neg__(self):
        return self._map2(-1, lambda x, y: x * y)

    def _no_arithmetic(self, *a, **k):
        raise Unsupported(f"this array operation on an abstract {self.what} sequence (symbolic length) is outside the engine's model")

    __pow__ = __matmul__ = __rmatmul__ = _no_arithmetic


def geomspace(a, b, num=50, **k):
    _used("np.geomspace(a,b,k)[i] = a (b/a)^(i/(k-1)) with exact endpoints")
    if isinstance(num, Sym) and not num.is_const():
        _used("np.geomspace with symbolic length: abstract sequence with first = a, last = b")
        return AbstractSeq(norm(a), norm(b), length=num)
    num = int(num)
    a, b = norm(a), norm(b)
    out = _np.empty(num, dtype=object)
    same = (isinstance(a, Sym) and isinstance(b, Sym) and a.n == b.n) or (isinstance(a, _EXACT) and isinstance(b, _EXACT) and a == b)
    for i in range(num):
        if same:
            out[i] = a
        elif i == 0:
            out[i] = a
        elif i == num - 1:
            out[i] = b
        else:
            out[i] = norm(T.lift(a) * T.power(T.lift(b) / T.lift(a), Fraction(i, num - 1)))
    return out


def linspace(a, b, num=50, endpoint=True, **k):
    num = int(num)
    a, b = norm(a), norm(b)
    out = _np.empty(num, dtype=object)
    den = (num - 1) if endpoint else num
    for i in range(num):
        out[i] = norm(T.lift(a) + (T.lift(b) - T.lift(a)) * Fraction(i, den)) if den else a
    return out


# -- predicates -------------------------------------------------------------------------------------------
def isnan(x):
    if _is_scalar(x):
        return isinstance(x, NaNType) or (isinstance(x, float) and x != x)
    x = _np.asarray(x, dtype=object)
    out = _np.zeros(x.shape, dtype=bool)
    for idx in _np.ndindex(x.shape):
        out[idx] = isnan(x[idx])
    return out


def _absdiff_le(a, b, tol):
    d = T.lift(a) - T.lift(b)
    return T.band(d <= tol, -d <= tol)


def _isclose1(a, b, rtol, atol):
    a, b = norm(a), norm(b)
    if isinstance(a, InfType) or isinstance(b, InfType):
        return a == b
    if isinstance(a, _EXACT) and isinstance(b, _EXACT):
        return builtins.abs(a - b) <= atol + rtol * builtins.abs(b)
    bb = T.lift(b)
    absb = T.ite(bb >= 0, bb, -bb)
    return _absdiff_le(a, b, T.lift(atol) + T.lift(rtol) * absb)


def isclose(a, b, rtol=Fraction(1, 10**5), atol=Fraction(1, 10**8), equal_nan=False):
    _used("np.isclose(a,b): |a-b| <= atol + rtol |b|")
    rtol, atol = to_q(rtol) if not isinstance(rtol, Fraction) else rtol, to_q(atol) if not isinstance(atol, Fraction) else atol
    if _is_scalar(a) and _is_scalar(b):
        return _isclose1(a, b, rtol, atol)
    a, b = _np.broadcast_arrays(_np.asarray(_arr(a), dtype=object), _np.asarray(_arr(b), dtype=object))
    out = _np.empty(a.shape, dtype=object)
    for idx in _np.ndindex(a.shape):
        out[idx] = _isclose1(a[idx], b[idx], rtol, atol)
    return out


def allclose(a, b, rtol=Fraction(1, 10**5), atol=Fraction(1, 10**8), equal_nan=False):
    if _np.shape(a) != _np.shape(b):
        try:
            _np.broadcast_shapes(_np.shape(a), _np.shape(b))
        except ValueError:
            raise ValueError("operands could not be broadcast together")
    r = isclose(a, b, rtol, atol)
    if _is_scalar(r):
        return r
    acc = T.TRUE
    for v in r.reshape(-1):
        acc = T.band(acc, v)
    return acc if not acc.is_bool() or acc.op not in ("true", "false") else (acc.op == "true")


def array_equal(a, b, **k):
    """elementwise exact equality of two arrays of the same shape (symbolic: conjunction of equalities)"""
    a, b = _np.asarray(_arr(a), dtype=object), _np.asarray(_arr(b), dtype=object)
    if a.shape != b.shape:
        return False
    acc = T.TRUE
    for x, y in zip(a.reshape(-1), b.reshape(-1)):
        x, y = norm(x), norm(y)
        if isinstance(x, _EXACT) and isinstance(y, _EXACT):
            if x != y:
                return False
            continue
        acc = T.band(acc, T.cmp("==", T.lift(x), T.lift(y)))
    return acc if acc.op != "true" else True


def digitize(x, bins, right=False):
    """number of bins[i] <= x  (bins increasing, right=False)."""
    _used("np.digitize(x,bins) = #{i : bins[i] <= x}")
    if right:
        raise Unsupported("digitize(right=True)")
    n = 0
    for bnd in bins:
        if bnd <= x:  # forks when symbolic
            n += 1
    return n


def sort(a, **k):
    return _np.array(sorted(list(a)), dtype=object)


def unique(a, **k):
    _used("np.unique: sorted, duplicates removed")
    out = []
    for v in sorted(list(_np.asarray(a, dtype=object).reshape(-1))):
        if not out or bool(out[-1] != v):
            out.append(v)
    return _np.array(out, dtype=object)


def sum(a, axis=None, **k):  # noqa: A001
    a = _arr(a) if not (isinstance(a, _np.ndarray) and a.dtype == object) else a
    if a.size == 0:
        return Fraction(0) if axis is None else _np.sum(a, axis=axis)
    return _np.sum(a, axis=axis)


def einsum(spec, *ops, out=None, **k):
    ops = [o if isinstance(o, _np.ndarray) and o.dtype == object else _arr(o) for o in ops]
    res = _np.einsum(spec, *ops)
    if out is not None:      # numpy's in-place form: the buffer is overwritten and returned
        out[...] = res
        return out
    return res


def matmul(a, b):
    return _arr(a) @ _arr(b)


def dot(a, b):
    return _np.dot(_arr(a), _arr(b))


def outer(a, b):
    return _np.outer(_arr(a), _arr(b))


class _UFunc:
    """binary numpy ufunc over object arrays: the call and .outer; any other ufunc method is outside the stand-in"""

    def __init__(self, name, f):
        self.__name__, self._f = name, f

    def __call__(self, a, b):
        return self._f(_arr(a), _arr(b))

    def outer(self, a, b):
        a, b = _arr(a), _arr(b)
        return self._f(a.reshape(a.shape + (1,) * b.ndim), b)

    def __getattr__(self, name):
        raise Unsupported(f"numpy.{self.__name__}.{name}")


multiply = _UFunc("multiply", lambda a, b: a * b)
add = _UFunc("add", lambda a, b: a + b)
subtract = _UFunc("subtract", lambda a, b: a - b)


class _Linalg:
    @staticmethod
    def inv(m):
        m = _arr(m)
        if m.shape == (1, 1):
            out = _np.empty((1, 1), dtype=object)
            out[0, 0] = _vcdiv(1, m[0, 0])
            return out
        if m.shape == (2, 2):
            _used("np.linalg.inv 2x2 = adjugate / det")
            det = m[0, 0] * m[1, 1] - m[0, 1] * m[1, 0]
            out = _np.empty((2, 2), dtype=object)
            out[0, 0] = _vcdiv(m[1, 1], det)
            out[0, 1] = _vcdiv(-m[0, 1], det)
            out[1, 0] = _vcdiv(-m[1, 0], det)
            out[1, 1] = _vcdiv(m[0, 0], det)
            return out
        if all(isinstance(norm(v), _EXACT) for v in m.reshape(-1)):
            return _exact_inv(m)
        h = _HOOKS.get("linalg.inv")
        if h:
            return h(m)
        if m.ndim == 2 and m.shape[0] == m.shape[1] and m.shape[0] <= 4:
            _used("np.linalg.inv n<=4 = adjugate / det (cofactor expansion)")
            return _adj_inv(m)
        raise Unsupported(f"np.linalg.inv of symbolic {m.shape} matrix (needs an assumed contract)")

    @staticmethod
    def solve(a, b):
        """np.linalg.solve(a, b): the x with a @ x == b, i.e. inv(a) @ b for a square non-singular a"""
        _used("np.linalg.solve(a, b) = inv(a) @ b")
        return _Linalg.inv(a) @ _arr(b)

    @staticmethod
    def eig(m):
        h = _HOOKS.get("linalg.eig")
        if h:
            return h(m)
        raise Unsupported("np.linalg.eig (needs an assumed contract)")

    @staticmethod
    def det(m):
        m = _arr(m)
        if m.shape == (2, 2):
            return m[0, 0] * m[1, 1] - m[0, 1] * m[1, 0]
        if all(isinstance(norm(x), _EXACT) for x in m.reshape(-1)):
            return _exact_det(m)
        idx = tuple(range(m.shape[0]))
        return _minor_det(m, idx, idx, {})

    @staticmethod
    def matrix_rank(m):
        return _exact_rank(_arr(m))


linalg = _Linalg()
_HOOKS: dict = {}


def _minor_det(m, rows, cols, memo):
    key = (rows, cols)
    if key in memo:
        return memo[key]
    if len(rows) == 1:
        r = m[rows[0], cols[0]]
    else:
        r = Fraction(0)
        i = rows[0]
        for k, j in enumerate(cols):
            a = m[i, j]
            if isinstance(a, _EXACT) and a == 0:
                continue
            sub = _minor_det(m, rows[1:], cols[:k] + cols[k + 1:], memo)
            r = r + a * sub if k % 2 == 0 else r - a * sub
    memo[key] = r
    return r


def _adj_inv(m):
    n = m.shape[0]
    memo = {}
    idx = tuple(range(n))
    det = _minor_det(m, idx, idx, memo)
    out = _np.empty((n, n), dtype=object)
    for i in range(n):
        for j in range(n):
            rows = tuple(r for r in idx if r != j)
            cols = tuple(c for c in idx if c != i)
            cof = _minor_det(m, rows, cols, memo) if n > 1 else Fraction(1)
            out[i, j] = _vcdiv(cof if (i + j) % 2 == 0 else -cof, det)
    return out


def _exact_inv(m):
    n = m.shape[0]
    a = [[Fraction(norm(m[i, j])) for j in range(n)] + [Fraction(int(i == j)) for j in range(n)] for i in range(n)]
    for c in range(n):
        p = next((r for r in range(c, n) if a[r][c] != 0), None)
        if p is None:
            raise _np.linalg.LinAlgError("Singular matrix")
        a[c], a[p] = a[p], a[c]
        pv = a[c][c]
        a[c] = [v / pv for v in a[c]]
        for r in range(n):
            if r != c and a[r][c] != 0:
                f = a[r][c]
                a[r] = [x - f * y for x, y in zip(a[r], a[c])]
    out = _np.empty((n, n), dtype=object)
    for i in range(n):
        for j in range(n):
            out[i, j] = a[i][n + j]
    return out


def _exact_det(m):
    n = m.shape[0]
    a = [[Fraction(norm(m[i, j])) for j in range(n)] for i in range(n)]
    det = Fraction(1)
    for c in range(n):
        p = next((r for r in range(c, n) if a[r][c] != 0), None)
        if p is None:
            return Fraction(0)
        if p != c:
            a[c], a[p] = a[p], a[c]
            det = -det
        det *= a[c][c]
        for r in range(c + 1, n):
            f = a[r][c] / a[c][c]
            a[r] = [x - f * y for x, y in zip(a[r], a[c])]
    return det


def _exact_rank(m):
    a = [[Fraction(norm(v)) for v in row] for row in m]
    rank = 0
    rows, cols = len(a), len(a[0]) if a else 0
    for c in range(cols):
        p = next((r for r in range(rank, rows) if a[r][c] != 0), None)
        if p is None:
            continue
        a[rank], a[p] = a[p], a[rank]
        for r in range(rows):
            if r != rank and a[r][c] != 0:
                f = a[r][c] / a[rank][c]
                a[r] = [x - f * y for x, y in zip(a[r], a[rank])]
        rank += 1
    return rank


class _finfo:
    def __init__(self, t=None):
        self.eps = Fraction(1, 2**52)


finfo = _finfo

class _ObjDType:
    """numpy scalar types (np.complex128, np.float64, ...) as the engine sees them: arrays of exact / symbolic values are object arrays, so
    `arr.astype(np.complex128)`, `np.zeros(shape, np.complex128)` keep the entries as they are (A1: machine numbers are treated as mathematical ones)."""

    dtype = _np.dtype(object)

    def __init__(self, name):
        self.__name__ = name

    def __call__(self, x=0):
        return norm(x)

    def __repr__(self):
        return f"<pyvc dtype {self.__name__}>"


complex128 = _ObjDType("complex128")
float64 = _ObjDType("float64")
cdouble = complex128
double = float64

_SELF = sys.modules[__name__]


class _NpShim(types.ModuleType):
    def __getattr__(self, name):
        if name.startswith("__"):
            raise AttributeError(name)
        try:
            return getattr(_SELF, name)
        except AttributeError:
            pass
        return getattr(_np, name)


np_shim = _NpShim("pyvc_np")


# -- math ---------------------------------------------------------------------------------------------------
class _MathShim(types.ModuleType):
    import math as _m

    def __getattr__(self, name):
        if name in ("exp", "log", "sqrt", "sin", "cos", "tan", "tanh"):
            return getattr(_SELF, name)
        if name == "atan":
            return arctan
        if name == "pi":
            return pi
        if name == "inf":
            return INF
        if name == "nan":
            return NAN
        if name == "gamma":
            return _gamma
        if name == "factorial":
            return _MathShim._m.factorial
        if name == "fabs":
            return abs
        if name in ("floor", "ceil", "isnan", "isinf", "comb", "prod", "gcd", "isclose"):
            return getattr(_MathShim._m, name)
        raise Unsupported(f"math.{name}")


def _gamma(x):
    x = norm(x)
    if isinstance(x, _EXACT) and Fraction(x).denominator == 1 and x >= 1:
        import math as _m

        _used("math.gamma(k+1) = k! for integer k")
        return Fraction(_m.factorial(int(x) - 1))
    return norm(T.app("Gamma", x))


math_shim = _MathShim("pyvc_math")


# -- scipy.special ----------------------------------------------------------------------------------------
def zeta(k):
    k = norm(k)
    if isinstance(k, _EXACT) and Fraction(k).denominator == 1 and 2 <= k <= 9:
        return T.app(f"zeta{int(k)}")
    raise Unsupported(f"zeta({k})")


class _SpShim(types.ModuleType):
    def __getattr__(self, name):
        if name == "zeta":
            return zeta
        if name == "digamma":
            return lambda x: norm(T.app("digamma", x))
        if name == "gamma":
            return _gamma
        raise Unsupported(f"scipy.special.{name}")


sp_shim = _SpShim("pyvc_sp")

# numeric values of the constant atoms (replay / enclosures)
import math as _math  # noqa: E402

T.NUM_FUNCS.update(
    {
        "pi": lambda: _math.pi,
        "euler_gamma": lambda: 0.5772156649015329,
        "zeta2": lambda: _math.pi**2 / 6,
        "zeta3": lambda: 1.2020569031595942,
        "zeta4": lambda: _math.pi**4 / 90,
        "zeta5": lambda: 1.03692775514337,
        "zeta6": lambda: _math.pi**6 / 945,
        "zeta7": lambda: 1.008349277381923,
        "tan": __import__("cmath").tan,
    }
)
