"""Catalogue of deliberate edits of the repository source used by ./vc selftest.

Each entry: pid, name, edits=[(file relative to src, old text (unique), new text)], optional expect (substring of
the output), harmless=True for edits after which the property still holds (the check must stay green).
"""
K = "eko/kernels/"
CATALOG = [
    # ---- C20 -------------------------------------------------------------------------------------------
    dict(pid="C20", name="beta2 nf coefficient", edits=[("eko/beta.py", "1415.0 / 27.0", "1415.0 / 29.0")], expect="beta_qcd_as4"),
    dict(pid="C20", name="gamma1 sign", edits=[("eko/gamma.py", "202.0 / 3.0 - 20.0 / 9.0 * nf", "202.0 / 3.0 + 20.0 / 9.0 * nf")], expect="gamma_qcd_as2"),
    dict(pid="C20", name="qed beta uses nd for up charge", edits=[("eko/beta.py", "return -4.0 / 3 * (nl + constants.NC * (nu * constants.eu2 + nd * constants.ed2))",
                                                                  "return -4.0 / 3 * (nl + constants.NC * (nd * constants.eu2 + nu * constants.ed2))")], expect="beta_qed_aem2"),
    dict(pid="C20", name="dispatcher maps (4,0) to as5", edits=[("eko/beta.py", "    elif k == (4, 0):\n        beta_ = beta_qcd_as4(nf)", "    elif k == (4, 0):\n        beta_ = beta_qcd_as5(nf)")], expect="dispatch(4,0)"),
    dict(pid="C20", name="harmless: reassociated beta0", harmless=True, edits=[("eko/beta.py", "return 11.0 / 3.0 * constants.CA - 4.0 / 3.0 * constants.TR * nf", "x = 4.0 * constants.TR * nf / 3.0\n    return constants.CA * 11.0 / 3.0 - x")]),
    # ---- C13 -------------------------------------------------------------------------------------------
    dict(pid="C13", name="j34_exact atan weight", edits=[(K + "evolution_integrals.py", "return 1 / (2 * beta2) * log - b1 / (beta2) * np.real(delta / Delta)", "return 1 / (2 * beta2) * log - b1 / (beta2) * np.real(delta / Delta) / 2")], expect="j34_exact"),
    dict(pid="C13", name="as4 j13_expanded sign", edits=[(K + "as4_evolution_integrals.py", "+ (b1**2 - b2) / 3 * (a1**3 - a0**3)", "+ (b1**2 + b2) / 3 * (a1**3 - a0**3)")], expect="j13_expanded"),
    dict(pid="C13", name="root r1 sign", edits=[(K + "as4_evolution_integrals.py", "r1 = 1 / (3 * b3) * (-b2 - d1 / d3 + d3)", "r1 = 1 / (3 * b3) * (-b2 + d1 / d3 + d3)")], expect="roots"),
    dict(pid="C13", name="j23_exact log argument swapped", edits=[(K + "evolution_integrals.py", "np.log((1.0 + a1 * b1) / (1.0 + a0 * b1))", "np.log((1.0 + a0 * b1) / (1.0 + a1 * b1))")], expect="j23_exact"),
    dict(pid="C13", name="harmless: j12 via difference of logs", harmless=True, edits=[(K + "evolution_integrals.py", "return np.log(a1 / a0) / beta0", "t = np.log(a1 / a0)\n    return t / beta0")]),
    # ---- C07 -------------------------------------------------------------------------------------------
    dict(pid="C07", name="nnlo_exact pairs gamma1 with j34", edits=[(K + "non_singlet.py", "        + gamma_ns[1] * ei.j24_exact(a1, a0, beta0, b_vec)\n        + gamma_ns[2] * ei.j34_exact(a1, a0, beta0, b_vec)", "        + gamma_ns[1] * ei.j34_exact(a1, a0, beta0, b_vec)\n        + gamma_ns[2] * ei.j24_exact(a1, a0, beta0, b_vec)")], expect="nnlo_exact"),
    dict(pid="C07", name="qed shift applied to beta1", edits=[(K + "non_singlet_qed.py", "betalist[0] += aem * beta.beta_qcd((2, 1), nf)", "betalist[-1] += aem * beta.beta_qcd((2, 1), nf)")], expect="C07.qed"),
    dict(pid="C07", name="qed log sign", edits=[(K + "non_singlet_qed.py", "np.log(mu2_from / mu2_to)", "np.log(mu2_to / mu2_from)")], expect="pure_qed"),
    dict(pid="C07", name="dispatcher order-3 exact returns expanded for DECOMPOSE_EXACT", edits=[(K + "non_singlet.py", "    if order[0] == 3:\n        if method in [\n            EvoMethods.ITERATE_EXPANDED,\n            EvoMethods.DECOMPOSE_EXPANDED,", "    if order[0] == 3:\n        if method in [\n            EvoMethods.ITERATE_EXPANDED,\n            EvoMethods.DECOMPOSE_EXACT,")], expect="DECOMPOSE_EXACT"),
    # ---- C19 -------------------------------------------------------------------------------------------
    dict(pid="C19", name="shift off by one (downward)", edits=[("eko/matchings.py", "rc, shift = (-1, -3) if nff < nf0 else (1, -2)", "rc, shift = (-1, -2) if nff < nf0 else (1, -2)")], expect="junction"),
    dict(pid="C19", name="hq = min instead of max", edits=[("eko/matchings.py", "max(prev.nf, seg.nf)", "min(prev.nf, seg.nf)")], expect="matched_path"),
    dict(pid="C19", name="inverse tied to scale order", edits=[("eko/matchings.py", "    return path[1].nf < path[0].nf", "    return path[0].is_downward")], expect="matched_path"),
    dict(pid="C19", name="default nf off by one", edits=[("eko/matchings.py", "return int(2 + ref_idx)", "return int(3 + ref_idx)")], expect="default_nf"),
    dict(pid="C19", name="harmless: boundaries built in two steps", harmless=True, edits=[("eko/matchings.py", "boundaries = [mu20] + self.walls[nf0 + shift : nff + shift : rc] + [mu2f]", "inner = self.walls[nf0 + shift : nff + shift : rc]\n        boundaries = [mu20] + inner + [mu2f]")]),
    # ---- C21 -------------------------------------------------------------------------------------------
    dict(pid="C21", name="exponentiated order-4 coefficient 5/2 -> 3/2", edits=[("eko/scale_variations/exponentiated.py", "5.0 / 2.0 * beta1 * beta0 * L**2", "3.0 / 2.0 * beta1 * beta0 * L**2")], expect="exponentiated"),
    dict(pid="C21", name="exponentiated update order reversed (aliasing)", edits=[("eko/scale_variations/exponentiated.py", "    if order[0] >= 2:\n        gamma[1] += beta0 * gamma[0] * L\n    return gamma", "    return gamma"), ("eko/scale_variations/exponentiated.py", "    beta2 = beta.beta_qcd((4, 0), nf)\n", "    beta2 = beta.beta_qcd((4, 0), nf)\n    if order[0] >= 2:\n        gamma[1] += beta0 * gamma[0] * L\n")], expect="exponentiated"),
    dict(pid="C21", name="expanded as3 missing factor 2 on beta0 gamma1", edits=[("eko/scale_variations/expanded.py", "2.0 * beta0 * gamma[1]", "beta0 * gamma[1]")], expect="expanded"),
    dict(pid="C21", name="expanded as2 sign of beta0 term", edits=[("eko/scale_variations/expanded.py", "(beta0 * gamma[0] + g0e2)", "(-beta0 * gamma[0] + g0e2)")], expect="expanded"),
    dict(pid="C21", name="qed return nested again", edits=[("eko/scale_variations/exponentiated.py", "            gamma[0, 2] += beta0qed * gamma[0, 1] * L\n    return gamma", "            gamma[0, 2] += beta0qed * gamma[0, 1] * L\n        return gamma")], expect="returns_array"),
    dict(pid="C21", name="qed term applied for fixed alpha_em too", edits=[("eko/scale_variations/expanded.py", "    sv_ker = non_singlet_variation(gamma[1:, 0], a_s, order, nf, L)\n    if alphaem_running:\n        if order[1] >= 2:", "    sv_ker = non_singlet_variation(gamma[1:, 0], a_s, order, nf, L)\n    if True:\n        if order[1] >= 2:")], expect="non_singlet_variation_qed"),
    dict(pid="C21", name="singlet g1g0 dropped (g0g1 twice)", edits=[("eko/scale_variations/expanded.py", "        g1g0 = gamma[1] @ gamma[0]\n        g0g1 = gamma[0] @ gamma[1]", "        g1g0 = gamma[0] @ gamma[1]\n        g0g1 = gamma[0] @ gamma[1]")], expect="singlet"),
    dict(pid="C21", name="harmless: variation_as1 commuted product", harmless=True, edits=[("eko/scale_variations/expanded.py", "    return L * gamma[0]", "    return gamma[0] * L")]),
    # ---- C23 -------------------------------------------------------------------------------------------
    dict(pid="C23", name="lambda_m uses +det", edits=[("ekore/anomalous_dimensions/__init__.py", "lambda_m = 1.0 / 2.0 * (gamma_S[0, 0] + gamma_S[1, 1] - det)", "lambda_m = 1.0 / 2.0 * (gamma_S[0, 0] - gamma_S[1, 1] - det)")], expect="C23.2D"),
    dict(pid="C23", name="projectors swapped in exp", edits=[("ekore/anomalous_dimensions/__init__.py", "exp = e_m * np.exp(lambda_m) + e_p * np.exp(lambda_p)", "exp = e_p * np.exp(lambda_m) + e_m * np.exp(lambda_p)")], expect="exp_is_spectral_sum"),
    dict(pid="C23", name="outer product transposed", edits=[("ekore/anomalous_dimensions/__init__.py", "e[i] = np.outer(v[:, i], v_inv[i])", "e[i] = np.outer(v_inv[i], v[:, i])")], expect="C23.eig"),
    dict(pid="C23", name="det discriminant factor 4 -> 2", edits=[("ekore/anomalous_dimensions/__init__.py", "+ 4.0 * gamma_S[0, 1] * gamma_S[1, 0]", "+ 2.0 * gamma_S[0, 1] * gamma_S[1, 0]")], expect="C23.2D"),
    dict(pid="C23", name="harmless: c folded into e_p", harmless=True, edits=[("ekore/anomalous_dimensions/__init__.py", "e_p = +c * (gamma_S - lambda_m * identity)", "e_p = (gamma_S - lambda_m * identity) / det")]),
    # ---- C22 -------------------------------------------------------------------------------------------
    dict(pid="C22", name="backward expanded a^3: A0A1 term dropped", edits=[("eko/evolution_operator/quad_ker.py", "-A[2] + A[0] @ A[1] + A[1] @ A[0] - A[0] @ A[0] @ A[0]", "-A[2] + 2 * A[1] @ A[0] - A[0] @ A[0] @ A[0]")], expect="C22.ome"),
    dict(pid="C22", name="backward expanded a^2 sign", edits=[("eko/evolution_operator/quad_ker.py", "ome += a_s**2 * (-A[1] + A[0] @ A[0])", "ome += a_s**2 * (-A[1] - A[0] @ A[0])")], expect="C22.ome"),
    dict(pid="C22", name="invert_matching_coeffs 5 -> 4", edits=[("eko/couplings.py", "matching_coeffs_down[3, 2] = 5 * c_up[1, 1] * c_up[2, 1] - c_up[3, 2]", "matching_coeffs_down[3, 2] = 4 * c_up[1, 1] * c_up[2, 1] - c_up[3, 2]")], expect="C22.decoupling"),
    dict(pid="C22", name="exact backward drops the a^3 term", edits=[("eko/evolution_operator/quad_ker.py", "        if matching_order[0] >= 3:\n            ome += a_s**3 * A[2]\n", "        if matching_order[0] >= 3 and backward_method is not MatchingMethods.BACKWARD_EXACT:\n            ome += a_s**3 * A[2]\n")], expect="C22.ome"),
    dict(pid="C22", name="harmless: a_s**2 written as product", harmless=True, edits=[("eko/evolution_operator/quad_ker.py", "            ome += a_s**2 * A[1]", "            ome += a_s * a_s * A[1]")]),
    # ---- C11 -------------------------------------------------------------------------------------------
    dict(pid="C11", name="u_vec adds e_p/kk", edits=[("eko/kernels/singlet.py", "(e_m @ rp @ e_m + e_p @ rp @ e_p) / kk", "(e_m @ rp @ e_m + e_p @ rp @ e_p + e_p) / kk")], expect="u_vec"),
    dict(pid="C11", name="eko_iterate multiplies by transposed step", edits=[("eko/kernels/singlet.py", "        ek = np.ascontiguousarray(ad.exp_matrix_2D(ln)[0])\n        e = ek @ e\n        al = ah\n    return e", "        ek = np.ascontiguousarray(ad.exp_matrix_2D(ln)[0])\n        e = ek.T @ e\n        al = ah\n    return e")], expect="ITERATE"),
    dict(pid="C11", name="qed iterate exponent shifted by identity", edits=[("eko/kernels/singlet_qed.py", "ln = gamma / betatot * delta_a", "ln = (gamma + np.identity(dim)) / betatot * delta_a")], expect="C11.qed"),
    dict(pid="C11", name="gamma_variation adds a constant", edits=[("eko/scale_variations/exponentiated.py", "gamma[1] += beta0 * gamma[0] * L", "gamma[1] += beta0 * (gamma[0] + 1.0) * L")], expect="gamma_variation"),
    dict(pid="C11", name="backward expanded uses transposed A0", edits=[("eko/evolution_operator/quad_ker.py", "ome += a_s**2 * (-A[1] + A[0] @ A[0])", "ome += a_s**2 * (-A[1] + A[0].T @ A[0])")], expect="C11.ome"),
    dict(pid="C11", name="perturbative inverts uh instead of ul", edits=[("eko/kernels/singlet.py", "ek = np.ascontiguousarray(uh) @ np.ascontiguousarray(e0) @ np.linalg.inv(ul)", "ek = np.linalg.inv(uh).T @ np.ascontiguousarray(e0) @ np.ascontiguousarray(ul)")], expect="PERTURBATIVE"),
    dict(pid="C11", name="exp_matrix_2D e_m sign", edits=[("ekore/anomalous_dimensions/__init__.py", "e_m = -c * (gamma_S - lambda_p * identity)", "e_m = +c * (gamma_S - lambda_p * identity)")], expect="exp_matrix_2D"),
    dict(pid="C11", name="harmless: u_vec product order swapped (sum rule still holds)", harmless=True, edits=[("eko/kernels/singlet.py", "rp += np.ascontiguousarray(r[kk - jj]) @ u[jj]", "rp += u[jj] @ np.ascontiguousarray(r[kk - jj])")]),
    dict(pid="C11", name="harmless: eko_iterate right multiplication (sum rule still holds)", harmless=True, edits=[("eko/kernels/singlet.py", "        ek = np.ascontiguousarray(ad.exp_matrix_2D(ln)[0])\n        e = ek @ e\n        al = ah\n    return e", "        ek = np.ascontiguousarray(ad.exp_matrix_2D(ln)[0])\n        e = e @ ek\n        al = ah\n    return e")]),
    # ---- C10 -------------------------------------------------------------------------------------------
    dict(pid="C10", name="singlet shortcut at equal couplings removed", edits=[("eko/kernels/singlet.py", "    if a1 == a0:\n        return np.eye(len(gamma_singlet[0]), dtype=np.complex128)\n", "")], expect="C10.identity"),
    dict(pid="C10", name="ordered truncated denominator power shifted", edits=[("eko/kernels/non_singlet.py", "den += U[i] * a0**i", "den += U[i] * a0 ** (i + 1)")], expect="ORDERED_TRUNCATED"),
    dict(pid="C10", name="NS truncated drops -a0 at NLO", edits=[("eko/kernels/non_singlet.py", "fact += U[1] * (a1 - a0)", "fact += U[1] * a1")], expect="TRUNCATED"),
    dict(pid="C10", name="pure QED factor ignores mu2_to", edits=[("eko/kernels/non_singlet_qed.py", "np.log(mu2_from / mu2_to)", "np.log(mu2_from)")], expect="qed_ns"),
    dict(pid="C10", name="n3lo_expanded uses a0 twice in j33", edits=[("eko/kernels/non_singlet.py", "j33 = as4_ei.j33_expanded(a1, a0, beta0)\n    return np.exp(", "j33 = as4_ei.j33_expanded(a1, a1 * 0.0, beta0)\n    return np.exp(")], expect="order=4"),
    dict(pid="C10", name="harmless: ordered truncated accumulates in reverse", harmless=True, edits=[("eko/kernels/non_singlet.py", "    for i in range(order[0]):\n        num += U[i] * a1**i\n        den += U[i] * a0**i", "    for i in reversed(range(order[0])):\n        num += U[i] * a1**i\n        den += U[i] * a0**i")]),
    # ---- C08 -------------------------------------------------------------------------------------------
    dict(pid="C08", name="NS U2 factor 1/2 -> 1/3", edits=[("eko/kernels/non_singlet.py", "U[2] = 0.5 * (R2 + U[1] * R1)", "U[2] = 1 / 3 * (R2 + U[1] * R1)")], expect="C08.ns"),
    dict(pid="C08", name="NS R2 misses b2 R0", edits=[("eko/kernels/non_singlet.py", "R2 = gamma_ns[2] / beta0 - b1 * R1 - b2 * R0", "R2 = gamma_ns[2] / beta0 - b1 * R1")], expect="C08.ns"),
    dict(pid="C08", name="nnlo j14_expanded b2 sign", edits=[("eko/kernels/evolution_integrals.py", "        - b2 * j34_expanded(a1, a0, beta0)\n    )", "        + b2 * j34_expanded(a1, a0, beta0)\n    )")], expect="expanded"),
    dict(pid="C08", name="u_vec denominators swapped", edits=[("eko/kernels/singlet.py", "+ ((e_p @ rp @ e_m) / (r_m - r_p + kk))\n            + ((e_m @ rp @ e_p) / (r_p - r_m + kk))", "+ ((e_p @ rp @ e_m) / (r_p - r_m + kk))\n            + ((e_m @ rp @ e_p) / (r_m - r_p + kk))")], expect="u_vec"),
    dict(pid="C08", name="r_vec exact tail drops b2 at order 3", edits=[("eko/kernels/singlet.py", "r[kk] = -b1 * r[kk - 1] - b2 * r[kk - 2]\n", "r[kk] = -b1 * r[kk - 1]\n")], expect="r_vec"),
    dict(pid="C08", name="singlet truncated operator order at a1 a0", edits=[("eko/kernels/singlet.py", "- a1 * a0 * u1 @ e0 @ u1", "- a1 * a0 * u1 @ u1 @ e0")], expect="eko_truncated"),
    dict(pid="C08", name="singlet truncated aliasing restored", edits=[("eko/kernels/singlet.py", "    e = e0.copy()", "    e = e0")], expect="eko_truncated"),
    dict(pid="C08", name="perturbative inverts the wrong factor", edits=[("eko/kernels/singlet.py", "ek = np.ascontiguousarray(uh) @ np.ascontiguousarray(e0) @ np.linalg.inv(ul)", "ek = np.linalg.inv(uh) @ np.ascontiguousarray(e0) @ np.ascontiguousarray(ul)")], expect="eko_perturbative"),
    dict(pid="C08", name="sum_u starts the power at a", edits=[("eko/kernels/singlet.py", "    p = 1.0\n    res = np.zeros((2, 2), dtype=np.complex128)", "    p = a\n    res = np.zeros((2, 2), dtype=np.complex128)")], expect="sum_u"),
    dict(pid="C08", name="harmless: U_vec R1 hoisted", harmless=True, edits=[("eko/kernels/non_singlet.py", "        U[1] = R1\n", "        U[1] = 1.0 * R1\n")]),
    # ---- C16 -------------------------------------------------------------------------------------------
    dict(pid="C16", name="MSBAR c31 back to 365/3", edits=[("eko/couplings.py", "matching_coeffs_up[3, 1] = 2645.0 / 27.0 - 67.0 / 9.0 * nf", "matching_coeffs_up[3, 1] = 365.0 / 3.0 - 67.0 / 9.0 * nf")], expect="C16.rg[MSBAR]"),
    dict(pid="C16", name="POLE c30 digits swapped", edits=[("eko/couplings.py", "340.729 - 16.7981 * nf", "340.792 - 16.7981 * nf")], expect="c30_const"),
    dict(pid="C16", name="wrong threshold ratio index", edits=[("eko/couplings.py", "L = np.log(self.thresholds_ratios[seg.nf - shift])", "L = np.log(self.thresholds_ratios[seg.nf - 3])")], expect="C16.a["),
    dict(pid="C16", name="upward coefficients taken at nf+1", edits=[("eko/couplings.py", "else compute_matching_coeffs_up(self.hqm_scheme, seg.nf)", "else compute_matching_coeffs_up(self.hqm_scheme, seg.nf + 1)")], expect="C16.a["),
    dict(pid="C16", name="coefficient indices transposed", edits=[("eko/couplings.py", "m_coeffs[n, l_pow]", "m_coeffs[l_pow, n]")], expect="C16.a["),
    dict(pid="C16", name="matching uses the reference coupling", edits=[("eko/couplings.py", "fact += new_a[0] ** n * L**l_pow * m_coeffs[n, l_pow]", "fact += final_a[0] ** n * L**l_pow * m_coeffs[n, l_pow]")], expect="C16.a["),
    dict(pid="C16", name="harmless: L hoisted into a local power", harmless=True, edits=[("eko/couplings.py", "fact += new_a[0] ** n * L**l_pow * m_coeffs[n, l_pow]", "fact += (new_a[0] ** n) * (L**l_pow) * m_coeffs[n, l_pow]")]),
    # ---- C17 -------------------------------------------------------------------------------------------
    dict(pid="C17", name="hit returns the cached array itself", edits=[("eko/couplings.py", "return self.cache[key].copy()", "return self.cache[key]")], expect="C17"),
    dict(pid="C17", name="miss stores the returned array", edits=[("eko/couplings.py", "self.cache[key] = a_new.copy()", "self.cache[key] = a_new")], expect="C17"),
    dict(pid="C17", name="key misses scale_from", edits=[("eko/couplings.py", "key = (float(a_ref[0]), float(a_ref[1]), nf, nl, scale_from, float(scale_to))", "key = (float(a_ref[0]), float(a_ref[1]), nf, nl, float(scale_to))")], expect="key_contains.scale_from"),
    dict(pid="C17", name="a() works on a_ref in place", edits=[("eko/couplings.py", "final_a = self.a_ref.copy()", "final_a = self.a_ref")], expect="C17.a["),
    dict(pid="C17", name="harmless: key built via a local", harmless=True, edits=[("eko/couplings.py", "key = (float(a_ref[0]), float(a_ref[1]), nf, nl, scale_from, float(scale_to))", "a0_, a1_ = float(a_ref[0]), float(a_ref[1])\n        key = (a0_, a1_, nf, nl, scale_from, float(scale_to))")]),
    # ---- C15 -------------------------------------------------------------------------------------------
    dict(pid="C15", name="expanded_nlo sign of the log term", edits=[("eko/couplings.py", "as_NLO = a_LO * (1 - b1 * a_LO * np.log(den))", "as_NLO = a_LO * (1 + b1 * a_LO * np.log(den))")], expect="rge_residual"),
    dict(pid="C15", name="expanded_nnlo b2 - b1^2 -> b2 + b1^2", edits=[("eko/couplings.py", "(b2 - b1**2)", "(b2 + b1**2)")], expect="expanded_nnlo"),
    dict(pid="C15", name="fixed aem: shift applied for QED order 0 too", edits=[("eko/couplings.py", "    beta_qcd0 = beta_qcd((2, 0), nf)\n    if order[1] >= 1:\n        beta_qcd0 += aem * beta_qcd((2, 1), nf)", "    beta_qcd0 = beta_qcd((2, 0), nf)\n    if order[1] >= 0:\n        beta_qcd0 += aem * beta_qcd((2, 1), nf)")], expect="fixed_aem"),
    dict(pid="C15", name="exact rge drops a factor a", edits=[("eko/couplings.py", "rge = -(a**2) * (np.sum([a**k * b for k, b in enumerate(b_vec)]))", "rge = -a * (np.sum([a**k * b for k, b in enumerate(b_vec)]))")], expect="exact_fixed"),
    dict(pid="C15", name="running aem: QED solution driven by the QCD beta0", edits=[("eko/couplings.py", "res_aem = expanded_qed(couplings_ref[1], order[1], beta0_qed, b_vec_qed, lmu)", "res_aem = expanded_qed(couplings_ref[1], order[1], beta0_qcd, b_vec_qed, lmu)")], expect="running_aem"),
    dict(pid="C15", name="harmless: den inlined in exact_lo", harmless=True, edits=[("eko/couplings.py", "    den = 1.0 + beta0 * ref * lmu\n    return ref / den", "    return ref / (1.0 + beta0 * ref * lmu)")]),
]
