#!/bin/bash
# Builds /verif/.venv : python 3.12 venv layered over /venv's site-packages (repo deps: numpy, scipy, numba ...)
# plus the solver / contract tooling from the offline wheelhouse.  Idempotent, offline.
set -e
cd "$(dirname "$0")"
V=.venv
if [ -x $V/bin/python ] && $V/bin/python -c "import z3, sympy, cvc5, deal, jsonschema, numpy, scipy" 2>/dev/null; then
  echo "setup: .venv already complete"; exit 0
fi
rm -rf $V
/venv/bin/python -m venv $V
SP=$($V/bin/python -c "import sysconfig; print(sysconfig.get_paths()['purelib'])")
echo "import site; site.addsitedir('/venv/lib/python3.12/site-packages')" > "$SP/_base.pth"
PIP_NO_INDEX=1 $V/bin/python -m pip install -q --no-index --find-links /opt/veriftools/wheels \
   z3-solver sympy mpmath cvc5 deal icontract jsonschema crosshair-tool 2>&1 | tail -3
$V/bin/python -c "import z3, sympy, cvc5, deal, jsonschema, numpy, scipy, numba; print('setup ok: z3', z3.get_version_string(), 'sympy', sympy.__version__)"
