#!/bin/bash
# runs the repository's baseline suite on /repo's working tree and compares the set of passing tests with /root/.vp/BASELINE.json
cd /repo && /venv/bin/python -m pytest -ra -q -p no:cacheprovider --timeout=900 --continue-on-collection-errors --junitxml=/tmp/base.junit.xml > /tmp/base.log 2>&1
python3 - <<'PY'
import json, xml.etree.ElementTree as ET
base=set(json.load(open('/root/.vp/BASELINE.json'))['stable_pass'])
t=ET.parse('/tmp/base.junit.xml').getroot()
passed=set()
for tc in t.iter('testcase'):
    if not any(ch.tag in ('failure','error','skipped') for ch in tc):
        passed.add(f"{tc.get('classname')}::{tc.get('name')}")
missing=sorted(base-passed)
print(f"baseline stable_pass={len(base)} passed now={len(passed)} missing={len(missing)}")
for m in missing[:20]: print("  MISSING", m)
PY
cd /repo && git status --short | head -3
