#!/usr/bin/env python3
"""Sanity of the committed evidence files: one per claimed check, valid against the schema, discharged == obligations, no violations."""
import json, os, sys
V = os.path.dirname(os.path.dirname(os.path.abspath(__file__)))
man = json.load(open(f"{V}/MANIFEST.json"))
bad = 0
try:
    import jsonschema
    schema = json.load(open("/root/.vp/EVIDENCE.schema.json"))
except Exception:
    jsonschema = None
for c in man["checks"]:
    pid = c["property_id"]
    p = f"{V}/evidence/{pid}.json"
    if not os.path.exists(p):
        print("missing", pid); bad += 1; continue
    e = json.load(open(p))
    cov = e["coverage"]
    if cov["obligations"] != cov["discharged"] or e.get("violations") or cov.get("checker_errors"):
        print("inconsistent", pid, cov["obligations"], cov["discharged"], e.get("violations")); bad += 1
    if jsonschema:
        try:
            jsonschema.validate(e, schema)
        except Exception as ex:
            print("schema", pid, str(ex)[:200]); bad += 1
print("evidence files ok" if not bad else f"{bad} problems")
sys.exit(1 if bad else 0)
