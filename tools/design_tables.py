#!/usr/bin/env python3
"""Regenerates the machine-derived tables of DESIGN.md (between <!-- BEGIN:x --> / <!-- END:x --> markers):
claimed checks (from MANIFEST.json + evidence), findings (known_findings.json), seeded changes (seeded/*/meta.json)."""
import glob
import json
import os
import re

V = os.path.dirname(os.path.dirname(os.path.abspath(__file__)))


def claimed():
    man = json.load(open(f"{V}/MANIFEST.json"))
    rows = ["| id | obligations (quick) | back ends | wall s | functions under contract | known-finding obligations |", "|---|---|---|---|---|---|"]
    for c in sorted(man["checks"], key=lambda c: c["property_id"]):
        pid = c["property_id"]
        try:
            ev = json.load(open(f"{V}/evidence/{pid}.json"))
            cov = ev["coverage"]
            rows.append(f"| {pid} | {cov['obligations']} | {', '.join(f'{k}: {v}' for k, v in sorted(cov['obligations_by_backend'].items()))} | {ev.get('wall_s', '')} | {len(cov['functions_under_contract'])} | {cov.get('known_finding_obligations', 0)} |")
        except Exception as e:  # evidence not there yet
            rows.append(f"| {pid} | (no evidence file: {e}) | | | | |")
    return "\n".join(rows)


def findings():
    d = json.load(open(f"{V}/known_findings.json"))["findings"]
    seen, rows = set(), ["| id | property | status | commit | what |", "|---|---|---|---|---|"]
    for f in d:
        if f["id"] in seen:
            continue
        seen.add(f["id"])
        n = sum(1 for g in d if g["id"] == f["id"])
        rows.append(f"| {f['id']} | {f['property']} | {f['status']}{f' ({n} obligation patterns)' if n > 1 else ''} | {f.get('commit', '')} | {f['what'][:600].replace('|', '/')} |")
    return "\n".join(rows)


def seeds():
    rows = ["| seeded change | breaks | needs to manifest | source | detected by (exit 1) | violations / replayed natively |", "|---|---|---|---|---|---|"]
    for p in sorted(glob.glob(f"{V}/seeded/*/meta.json")):
        m = json.load(open(p))
        det = ", ".join(m.get("detected_by", [])) or "MISSED"
        vr = "; ".join(f"{k}: {v['violations']}/{v['replayed']}" for k, v in m.get("checks", {}).items())
        rows.append(f"| {m['name']} | {m['breaks_property']} | {m['needs_to_manifest'][:300].replace('|', '/')} | {m.get('source', '')[:60]} | {det} | {vr} |")
    return "\n".join(rows)


def main():
    p = f"{V}/DESIGN.md"
    s = open(p).read()
    for key, fn in (("claimed", claimed), ("findings", findings), ("seeds", seeds)):
        pat = re.compile(rf"(<!-- BEGIN:{key} -->\n).*?(<!-- END:{key} -->)", re.S)
        if pat.search(s):
            s = pat.sub(lambda m: m.group(1) + fn() + "\n" + m.group(2), s)
    open(p, "w").write(s)
    print("DESIGN.md tables regenerated")


if __name__ == "__main__":
    main()
