#!/usr/bin/env python3
"""Run checks against a BEHAVIOUR-PRESERVING change of /repo (false-alarm probing).

usage: tools/harmless.py <name> <patch.diff> <note> <pid> [pid ...]

The patch is applied to a scratch copy of /repo/src (never to /repo); every listed check is run with --repo-src on the copy and a scratch output directory.
Expected: exit 0.  exit 3 (undecided: the change left the verified subset or the ledger no longer matches) is recorded as such; exit 1 is a FALSE ALARM.
Writes /verif/harmless/<name>/{patch.diff, meta.json}.
"""
import json
import os
import shutil
import subprocess
import sys
import tempfile

VERIF = os.path.dirname(os.path.dirname(os.path.abspath(__file__)))


def main():
    name, patch, note, *pids = sys.argv[1:]
    tmp = tempfile.mkdtemp(prefix="harmless_")
    res = {}
    try:
        shutil.copytree("/repo/src", tmp + "/src", ignore=shutil.ignore_patterns("__pycache__", "*.pyc"))
        r = subprocess.run(["patch", "-p1", "-s", "-i", os.path.abspath(patch)], cwd=tmp, capture_output=True, text=True)
        if r.returncode:
            print("patch does not apply:", (r.stdout + r.stderr)[:300])
            return 2
        for pid in pids:
            env = dict(os.environ, PYVC_OUT_DIR=tmp + "/out", PYVC_NF_BUDGET="400")
            c = subprocess.run(["./vc", "check", pid, "--tier", "quick", "--repo-src", tmp + "/src"], cwd=VERIF, capture_output=True, text=True, env=env, timeout=5400)
            last = [ln for ln in c.stdout.splitlines() if ln.startswith(pid + " [")]
            firsts = [ln.strip()[:300] for ln in c.stdout.splitlines() if ln.startswith("  obligation") or ln.startswith("CHECKER-ERROR")][:3]
            res[pid] = dict(exit=c.returncode, summary=last[-1] if last else c.stdout[-300:], first=firsts)
            print(pid, c.returncode, res[pid]["summary"])
            for f in firsts:
                print("    " + f)
    finally:
        shutil.rmtree(tmp, ignore_errors=True)
    out = os.path.join(VERIF, "harmless", name)
    os.makedirs(out, exist_ok=True)
    shutil.copy(patch, os.path.join(out, "patch.diff"))
    verdict = "false alarm" if any(v["exit"] == 1 for v in res.values()) else ("undecided" if any(v["exit"] != 0 for v in res.values()) else "accepted")
    json.dump(dict(name=name, what=note, checks=res, verdict=verdict, source="independent sub-agent asked for a behaviour-preserving refactoring"), open(os.path.join(out, "meta.json"), "w"), indent=1)
    print("verdict:", verdict)
    return 0


if __name__ == "__main__":
    sys.exit(main())
