#!/usr/bin/env python3
"""Generates /verif/MANIFEST.json from the tables below (run after adding/removing a claimed property)."""
import json
import os

VERIF = os.path.dirname(os.path.dirname(os.path.abspath(__file__)))

COMMON_NOTE = ("Trusted base: pyvc engine (AST transform T1-T3 of the real source re-read from /repo/src on every run; term IR; exact "
               "polynomial normal form; z3 5.1 / cvc5 1.0); global assumptions A1 (floats as exact reals), A2 (identities over Q(generators) "
               "lift to C), A3 (integer powers), A4 (path forking via z3), A5 (numpy shim contracts, listed per run in evidence.trusted_base). ")

CLAIMED = {
    "C27": dict(
        category="proof",
        text=("The real dispatchers gamma_ns / gamma_singlet (unpolarised space-like orders 1-4 incl. both N3LO parametrisations and their variations; time-like and polarised orders 1-3) "
              "are executed with symbolic real N (symbolic nf outside FHMRUVV) over the polygamma contract, and the resulting term is expanded for N -> infinity in an exact asymptotic-series "
              "domain (powers of 1/N and ln N with polynomial coefficients in nf, zeta_k; the only analytic input is the textbook asymptotic series of psi^(k)). Ensures per entry: no positive "
              "power of N and no ln^j N, j >= 2, survives; the ln N coefficient equals A_k (non-singlet) resp. (CA/CF) A_k (gluon-gluon): exactly at k = 1, to the 16 decimal digits of the "
              "literals at k = 2, to the printed digits coefficient-by-coefficient in nf at k = 3, 4; FHMRUVV central members within the quoted uncertainty of A_4, band members bracket it. "
              "Two known findings: F27 (N3LO gg carries the literature gluon cusp coefficient, not (CA/CF) A_4) and F28 (time-like NNLO valence entry has the ns- part with the wrong sign: ln N coefficient -A_3)."),
        note=COMMON_NOTE + "Trusted: asymptotic series of psi^(k) (Abramowitz-Stegun 6.3.18, 6.4.11), literature values of A_1..A_4. Real N -> +infinity only.",
        technique="contract-based deductive verification: symbolic execution over the polygamma contract + exact asymptotic-expansion domain (lemma: leading large-N coefficient)",
        design_ref="DESIGN.md section 2, C27",
    ),
    "C29": dict(
        category="proof",
        text=("Exact clauses through O(a_s^2) with the polygamma contract: (1) momentum at N = 2 for the unpolarised space-like matching: O(a_s) every column identically in L; O(a_s^2) the "
              "light-quark column identically in L and the L, L^2 coefficients of the gluon column exactly (its L-independent term within 1e-5, a ground numerical evaluation), both mass schemes; "
              "(2) A_qq,ns(1) = 0 at both orders; (3) RG structure of the L dependence derived from f^(nf+1) = A f^(nf): dA1/dL = gamma0_emb(nf) - gamma0(nf+1) on all nine entries for symbolic N "
              "(unpolarised; polarised on the gluon and light-quark columns; non-singlet matrix), and the O(a_s^2) double logs [L^2]A2 = 1/2 (A1' gamma0_emb - gamma0' A1' + beta0' A1' - 4/3 T_R gamma0_emb) "
              "and the single logs [L]A2 = gamma1_emb(nf) - gamma1(nf+1) (NLO anomalous dimensions) on the gluon and light-quark columns, the non-singlet A_qq,ns^(2) logs, nf = 3, 4, 5 -- i.e. the complete L dependence of the O(a_s^2) matching on those columns; the O(a_s^3) triple logs through the dispatcher at 6 sample moments to 1e-12 (the code's coefficients are 16-digit decimals). Also: the L^2 coefficient of the O(a_s^3) singlet elements against the a^3 order of the same chain rule (7 moments, 1e-4), and every O(a_s^2)/O(a_s^3) element evaluated on an empty harmonic-sum cache equals the entry of the tower (no dependence on the cache history). MSbar masses: the L and L^2 coefficients of A2 equal those of the pole scheme."),
        note=COMMON_NOTE + "Not claimed: the lower logs and sum rules at O(a_s^3) (parametrised, removable singularities at N = 2), the intrinsic heavy-quark column beyond O(a_s) (no O(a_s^2) intrinsic matching implemented), the time-like RG structure.",
        technique="contract-based deductive verification: symbolic execution over the polygamma contract + exact normal form; RG equations as specification",
        design_ref="DESIGN.md section 2, C29",
    ),
    "C25": dict(
        category="proof",
        text=("Exact clauses, with cern_polygamma replaced by its contract (closed forms at integer / half-integer arguments): (1) the leading-order sum rules hold EXACTLY for nf 3-6 -- "
              "unpolarised momentum at N = 2 and quark number at N = 1, time-like momentum in the fragmentation convention (rows weighted with the second moments 2 nf and 1) and quark number, "
              "polarised axial charge, gamma_qg(1) = 0 and gamma_gg(1) = -beta_0, QED: gluon + photon + Sigma rows of every column vanish at N = 2 at orders (1,0) and (0,1), valence / minus "
              "number at N = 1; (2) FHMRUVV N3LO: for SYMBOLIC N the central variation equals the mean of the down and up variations for gg, gq, qg, ps, ns+, ns-, nsv and the assembled singlet block; "
              "(3) beyond leading order (unpolarised space-like orders 2-4 with both N3LO parametrisations and every variation index, time-like and polarised orders 2-3, every nf): the same sums formed "
              "from the exact terms the real code produces at N = 2 / N = 1 (harmonic sums in closed form, 40-digit evaluation) vanish within 1e-5 of the largest entry at NLO and 2e-3 at NNLO / N3LO "
              "(the accuracy documented for the parametrisations) -- a finite domain, enumerated completely in the thorough tier. The same rules through the QED-extended dispatchers for their pure-QCD entries (k,0), k = 2..4."),
        note=COMMON_NOTE + "Entries with a removable pole at N = 1 (valence sea parts) are evaluated 1e-12 away from it, not as limits. QED-extended rules beyond (1,1), (0,2) follow from the embedding C30.",
        technique="contract-based deductive verification: symbolic / exact execution over the polygamma contract + exact normal form",
        design_ref="DESIGN.md section 2, C25",
    ),
    "C18": dict(
        category="proof",
        text=("Proof part: msbar_masses.ker_expanded solves the mass RGE to the working order for generic beta and gamma_m coefficients (all nf) and orders 1-4: leading power (a1/a0)^(gamma0/beta0), "
              "unit value at equal couplings, and the Taylor coefficients a1^j, j < n, of d ln ker/da1 * a1 beta(a1) - gamma_m(a1) vanish identically; the logarithms of the mass decoupling across a matching scale are those required by RG invariance (residual of d ln m^(nf+1)/dt + gamma_m^(nf+1)(a') zero through O(a^3) identically in nf and L, the a^3 L^0 term to the printed digits); ker_dispatcher hands the couplings at "
              "xif2 * scale in the requested patch to the kernel of the coupling method. BOUNDED part (deal run-time contracts, never counted as proved): compute() returns sorted masses that are "
              "fixed points m(m) = m in the patch adjoining the threshold on the side of the coupling reference over 48 seeded draws (reference nf 3-6, orders 1-4, exact / expanded, ratios, xif) and "
              "refuses 12 inconsistent inputs with ValueError; 18 crossings re-checked with an independent bookkeeping of the mass path. evolve() itself is executed on ghost couplings (orders 2-4, up/down, "
              "one to three crossings, the three calling conventions): the mass path changes patch at m_h^2 x ratio and m^2 = m2_ref prod ker^2 prod zeta^2. Two defects repaired by fix commits (NumPy >= 2 TypeError; "
              "ratios of the coupling applied twice to the mass thresholds); one known finding F29 (m^2 multiplied by zeta instead of zeta^2). (e) runcards.masses hands compute() the card's own reference masses, coupling reference, order, method, squared matching ratios and xif^2."),
        note=COMMON_NOTE + "Not covered: the L-independent decoupling constants (literature values); convergence of fsolve / quad (observation: solve() ignores fsolve's convergence flag). The bounded part is listed under evidence.coverage.bounded_parts.",
        technique="contract-based deductive verification (symbolic execution + exact normal form) for the kernel; bounded stand-in (deal run-time contracts) for the fixed-point clause",
        design_ref="DESIGN.md section 2, C18",
    ),
    "C49": dict(
        category="exploration",
        text=("BOUNDED stand-in (never counted as proved): deal run-time contracts on the real click commands driven through click.testing.CliRunner in fresh scratch directories. "
              "`eko runcards example` with no destination, a new relative / nested / absolute destination and an existing one must succeed, write both cards and the files must load back into cards "
              "with the same field values; `eko run` with 1, 2, 3 paths (new- and legacy-format cards) must call eko.solve exactly once with the cards the library loads from those files and the "
              "documented output path, and refuse 0 or 4 paths without solving; one tiny LO card pair end to end: same targets and bitwise the same operators as eko.solve. 17 evaluations. "
              "One defect repaired by a fix commit (destinations that do not exist yet, including the default, were refused by the option parser)."),
        note="Bounded: finite input set stated in bounded/C49_native.py; no statement about other card pairs (their round trip is C40) or the console-script wiring. Trusted: CliRunner parses options as the entry point does; eko.solve is a function of its arguments.",
        technique="bounded stand-in for contract-based verification: deal run-time contracts on the real CLI functions over an enumerated input set (labelled bounded, not proved)",
        design_ref="DESIGN.md section 2, C49",
    ),
    "C41": dict(
        category="exploration",
        text=("BOUNDED stand-in (never counted as proved): deal run-time contracts on the real converters. Post-conditions are the settings listed in the property statement, phrased over the old keys: "
              "runcards.Legacy upgrades 80 flat card pairs (PTO 0-3, QED 0-2, POLE / MSBAR, nf0 given / None, mugrid / Q2grid / mu2grid, ev_op_max_order int / pair, four method names; covering sample) "
              "to cards with order = (PTO+1, QED), the same couplings and reference, masses and scheme, matching ratios, xif, x-grid, evolution scales with the default flavour number, initial point and "
              "configuration values; EKO.read of archives laid out as 0.13 / 0.14 wrote them yields cards and an x-grid with the stored settings. One defect repaired by a fix commit (ev_op_max_order given as a pair: KeyError). Archives: every leaf of both cards is compared with the stored one (non-default matching order, cores, iterations in the input)."),
        note="Bounded: finite input set stated in bounded/C41_native.py. The old archive layouts are inferred from the keys the converters read (no archive written by 0.13 / 0.14 is available offline); operators inside legacy archives and the reported matching order are not covered.",
        technique="bounded stand-in for contract-based verification: deal run-time contracts on the real converters over an enumerated input set (labelled bounded, not proved)",
        design_ref="DESIGN.md section 2, C41",
    ),
    "C45": dict(
        category="exploration",
        text=("BOUNDED stand-in (never counted as proved): deal run-time contracts on the real evolve_pdfs, info-file builders, writers and readers over one tiny LO card pair (three evolution points in two flavour "
              "patches), a toy lhapdf-like PDF and a stub for lhapdf.paths(). Every written number of the data blocks equals x * apply_pdf(eko, member, target grid) to the printed precision; XMin / XMax / QMin / QMax "
              "bound exactly the written grids, Flavors and NumMembers match; re-read blocks equal the dumped ones; AlphaS_Vals equal the coupling of the runner's couplings object at the listed scales (pole, MSbar, "
              "exponentiated xif = 2); an explicit target grid (list or XGrid) is honoured. 10 evaluations. Four defects repaired by three fix commits."),
        note="Bounded: finite input set stated in bounded/C45_native.py; no statement about other cards, installation into the LHAPDF directory or sets with several x-grids.",
        technique="bounded stand-in for contract-based verification: deal run-time contracts on the real export functions over an enumerated input set (labelled bounded, not proved)",
        design_ref="DESIGN.md section 2, C45",
    ),
    "C47": dict(
        category="exploration",
        text=("BOUNDED stand-in (never counted as proved): the real solver is run in fresh Python processes with PYTHONHASHSEED = 1, 2 and random on a tiny NLO QCD card pair with a threshold crossing (thorough tier: "
              "also LO with QED (1,1)); the archives must have the same member names and bitwise identical members (operators after decompression, recipes, cards, metadata). The inventory file names are shown to "
              "depend on numeric header fields only (not randomised by the hash seed) and encode() gives equal names across seeds. One card is computed by two worker processes under two emulated schedules (workers finishing in opposite orders)."),
        note="Bounded: finite input set stated in bounded/C47_native.py. Not covered: parallel integration, other platforms or library versions.",
        technique="bounded stand-in for contract-based verification: deal run-time contracts around the real solver run in fresh processes (labelled bounded, not proved)",
        design_ref="DESIGN.md section 2, C47",
    ),
    "C03": dict(
        category="exploration",
        text=("BOUNDED stand-in (never counted as proved): the real solver is run on a tiny NLO card pair with one threshold crossing with n_integration_cores in {2, 3, -1}, with every permutation of the three "
              "targets and with every non-empty proper subset of the targets (quick tier: a covering subset); for every target the operator and the integration error must be bitwise those of the reference run "
              "(one worker, given order); a second card with the expanded scale variation (xif = 2) has a target exactly on a matching scale and one beyond it (both orders, each alone). The deductive neighbours are C02 (parts computed once, joined in path order) and C17 (couplings independent of the query history)."),
        note="Bounded: finite input set stated in bounded/C03_native.py; interpreted (non-JIT) kernels; no statement about other cards or machines with another CPU count.",
        technique="bounded stand-in for contract-based verification: deal run-time contracts around the real solver (labelled bounded, not proved)",
        design_ref="DESIGN.md section 2, C03",
    ),
    "C40": dict(
        category="exploration",
        text=("BOUNDED stand-in, never counted as proved: YAML and the dataclass / typing reflection of eko.io.dictlike are outside the symbolic engine. `deal` run-time contracts on the real "
              "functions are evaluated natively over an enumerated input set (bounded/C40_native.py): the raw form is plain safe-YAML data; from_dict(safe-YAML(raw)) has the same field values "
              "(arrays by value, x-grid by nodes and logarithmic flag); runner.commons.interpolator uses the declared nodes, degree and interpolation_is_log (card as built, after a reload, and "
              "with the kind declared in the configs only). Inputs: theory cards over orders, mass schemes, N3LO variations, Python / NumPy numbers; operator cards covering every "
              "EvolutionMethod / ScaleVariationsMethod / InversionMethod value, log and linear grids, NumPy numbers; four ad-hoc DictLike classes. Two defect classes repaired by fix commits."),
        note="Bounded: 274 contract evaluations, no claim beyond the stated input set. Runs the untransformed package under plain CPython (overlay venv).",
        technique="bounded stand-in: deal run-time contracts on the real functions over an enumerated input set",
        design_ref="DESIGN.md section 2, C40",
    ),
    "C36": dict(
        category="exploration",
        text=("BOUNDED stand-in, never counted as proved: the serialisation layer (numpy.save/load, lz4, YAML, tarfile) is library code outside the symbolic engine. `deal` run-time contracts "
              "on wrappers of the real functions are evaluated natively over a stated finite input set (bounded/C36_native.py): load(save(op)) == op on the bit level (3 shapes, random and "
              "special values incl. -0.0, inf, nan payloads, denormals, errors on/off); a header stored by Inventory.__setitem__ is read back equal by a fresh Inventory.sync for 8 kinds of scale "
              "numbers (Python and NumPy scalars, scales one ulp apart) x 3 header types; create/close/read of whole archives (4 card variants x 0/1/3/6 points) returns the same points, bitwise-equal "
              "arrays, equal cards and metadata; an edit session changes exactly what was assigned. One defect repaired by a fix commit (NumPy-scalar scales made archives unreadable)."),
        note="Bounded: 66 contract evaluations, no claim beyond the stated input set. Runs the untransformed package under plain CPython (overlay venv), on a temporary directory that is removed.",
        technique="bounded stand-in: deal run-time contracts on the real functions over an enumerated input set",
        design_ref="DESIGN.md section 2, C36",
    ),
    "C24": dict(
        category="proof",
        text=("With cern_polygamma replaced by its contract (polygamma in normalised form: recurrence + closed forms at integer / half-integer arguments) the real ekore.harmonics code gives: "
              "(1) S_k(N) and S_-k(N), k = 1..5, equal their defining sums exactly for N = 1..60 (rational arithmetic, zeta / ln2 / gamma_E atoms cancel), with the parity flag and with (-1)^N; "
              "(2) the one-step recurrences of S_k and S_-k (with the parity switch) and the contract of recursive_harmonic_sum for SYMBOLIC complex N; (3) cache transparency: for each of "
              "the 31 keys and both parity flags, from EVERY pre-state of the lookup's footprint satisfying the invariant 'slot is NaN or its specification value' (all subsets) cache.get "
              "returns the direct-evaluation value, preserves the invariant and writes no slot outside the footprint -- hence any lookup order gives the values of direct evaluation."),
        note=COMMON_NOTE + "Not claimed: nested sums against their definitions and the Mellin transforms against their integrals (numerically approximated g-functions), accuracy of cern_polygamma itself; real-analyticity is C26.",
        technique="contract-based deductive verification: symbolic execution over the polygamma contract + exact normal form; representation-invariant proof of the cache over all footprint pre-states",
        design_ref="DESIGN.md section 2, C24",
    ),
    "C26": dict(
        category="proof",
        text=("All ekore entry points (gamma_ns / gamma_singlet unpolarised, polarised, time-like; QED grids; A_singlet / A_non_singlet of the three matching variants) and everything below them "
              "(splitting functions as1..as4 incl. both N3LO parametrisations and variation indices, aem1/aem2/as1aem1, matching coefficients as1..as3, harmonic sums, g- and log-functions) are "
              "executed with a symbolic Mellin moment N and symbolic log L, nf 3-6, every order and sector; only cern_polygamma is replaced by its contract. Each of the 5148 returned entries "
              "(30 000 term nodes) is typed by a conjugation calculus (even / odd; I odd; real-analytic functions preserve even; Re, Im, abs, conj handled) and must be even: f(conj N) = conj f(N), "
              "hence real at real N. Value-dependent branches (the N = 1 special cases) are explored path by path and their conditions must be conjugation invariant."),
        note=COMMON_NOTE + "Syntactic typing: sound, not complete (an untypable entry fails). Assumed: polygamma_k, exp, ln, sqrt ... real-analytic away from poles and cuts (C24).",
        technique="contract-based deductive verification: symbolic execution of the real code + a sound syntactic conjugation-parity type system over the resulting terms",
        design_ref="DESIGN.md section 2, C26",
    ),
    "C37": dict(
        category="model_checking",
        text=("Map clause by induction over the history with an EXHAUSTIVELY checked step: every state satisfying the representation invariant (disk = model with one header and one "
              "operator file per point, cache keys = model keys, loaded entries = model values) over three evolution points and two values (with / without errors; 125 states) x every "
              "operation (set, get, unload, contains, iterate, items, unload-all, close-and-reopen through the real EKO.load / Inventory.sync; 19 operations, 2375 transitions) is run on the real "
              "code over a ghost file system; the answer equals the dictionary model's and the invariant is re-established.  Two defects repaired by fix commits (unloading an unknown point "
              "registered it; overwriting by an operator of the other kind left two files and made the point unreadable)."),
        note=COMMON_NOTE + "Data independence (uniform treatment of keys and values) and the file-system call contracts are assumed; approximate lookup (EKO.approx) and hash collisions of encode() are not covered.",
        technique="contract-based verification: representation invariant + abstraction function checked on every (state, operation) pair of a finite abstract state space, real code over a ghost file system",
        design_ref="DESIGN.md section 2, C37",
    ),
    "C39": dict(
        category="model_checking",
        text=("The real mutators of eko.io (EKO.__setitem__, load_recipes, update, xgrid setter, dump to the default archive, Inventory.__setitem__ of all five inventories) and EKO.close run "
              "unmodified over a ghost file system that logs every disk-changing operation, from the states open/read-only, closed after a read-only session and closed after a regular close: "
              "every store attempt raises ReadOnlyOperator / ClosedOperator (OutputError) with NO disk operation before the refusal and leaves the access state unchanged (frame), which extends "
              "the verdict to every sequence of attempts; reads are served when open and refused when closed; closing a read-only EKO never touches the archive path; after a regular close "
              "the archive stays exactly what close() wrote."),
        note=COMMON_NOTE + "Relative to the assumed file-system call contracts of contracts/ghostfs.py; the bytes of a real tar file are only compared by the native replay oracle.",
        technique="contract-based verification: pre-state enumeration + frame conditions of the real mutators over a ghost file system with assumed call contracts",
        design_ref="DESIGN.md section 2, C39",
    ),
    "C38": dict(
        category="fault_enumeration",
        text=("Exceptional postconditions of the real EKO.close / dump / __exit__, Builder.__exit__ / __post_init__ / build, Inventory.__setitem__ and InternalPaths.bootstrap, run unmodified over a "
              "ghost file system (POSIX call contracts, abstract contents): a whole 'new EKO' session (create, bootstrap, two operators, leave the context) and an 'edit' session are executed once per "
              "fault point -- EVERY disk-changing operation (18 resp. 9; pairs in the thorough tier) -- and fault-free. After any failure the archive path is absent / holds OLD completely or holds the "
              "complete new archive, never an incomplete tar; a fault-free re-run on the same path succeeds; an exception OR an interruption (KeyboardInterrupt, SystemExit, GeneratorExit) inside the "
              "context leaves the archive untouched, and an interruption arriving at any fault point leaves it absent / OLD or complete. One defect repaired by a fix commit (close removed the archive before dumping)."),
        note=COMMON_NOTE + "Relative to the assumed file-system call contracts of contracts/ghostfs.py; process crashes (no exception) and the individual computation steps of a real solve are not enumerated. The sessions are concrete, the contents abstract.",
        technique="contract-based verification of exceptional postconditions: exhaustive enumeration of the crash points of the real code over a ghost file system with assumed call contracts",
        design_ref="DESIGN.md section 2, C38",
    ),
    "C04": dict(
        category="proof",
        text=("Dispatch-layer clauses over the COMPLETE finite configuration space (QCD order 1-4 x QED order 0-2 x 8 methods x 3 scale-variation modes x threshold flag x "
              "(polarised, time-like) x every sector label x both N3LO parametrisations x running flag: ~55 000 kernel configurations; matching: order 1-3 x 3 inversion modes x sv modes x "
              "flags x MSbar x 13 labels), real quad_ker_ad/qcd/qed/ome, ekore dispatchers, kernel dispatchers, scale-variation functions and build_ome executed with opaque non-zero leaves: "
              "(a) every configuration returns or raises NotImplementedError/ValueError with a message -- no unrelated exception; (b) definite assignment: a dispatcher that returns has filled "
              "every pure-QCD slot below the requested order (nf 3-6, all sectors, three variants; one defect repaired by a fix commit: time-like N3LO was silently zero); "
              "(c) the documented refusals happen. (e) parts.match for every heavy quark, direction, scheme and with heavier quarks switched off: no unrelated exception, nf = hq - 1, finite logarithm of this quark's matching ratio."),
        note=COMMON_NOTE + "Finiteness of floats, the runner above the kernels, and Couplings / MSbar numerics are not covered. Couplings and scales are concrete rationals in this check (the outcome class does not depend on them).",
        technique="contract-based deductive verification: exhaustive enumeration of the finite configuration space with symbolic execution of the real dispatch code over opaque callee contracts",
        design_ref="DESIGN.md section 2, C04",
    ),
    "C14": dict(
        category="proof",
        text=("Kernel clause at a_em = 0 for ANY number of steps (loop invariants over a symbolic iteration count), QCD orders 1-4 x QED orders 1-2, generic beta coefficients: every step of "
              "non_singlet_qed.exact equals the exact QCD non-singlet kernel of that step; every step of singlet_qed.eko_iterate (singlet and valence) exponentiates exactly "
              "embed(L_S, 0, l_+) resp. diag(l_V, l_-) with the per-step exponents of the QCD singlet.eko_iterate (proved against the real QCD code), and the accumulated kernel keeps the block "
              "structure: photon trivial and decoupled, Sigma_Delta / V / V_Delta follow ns+ / nsV / ns-. The real exp_matrix is run on the exponents of a step at a_em = 0 (multiple of the identity, distinct diagonal, zero, isolated photon entry) on every path."),
        note=COMMON_NOTE + "exp_matrix through its contract on block-diagonal arguments (lemma); embedding structure of the inputs is C30; the end-to-end alpha_em -> 0 limit (numerical) is not claimed.",
        technique="contract-based deductive verification: loop-invariant cuts + symbolic execution with exact normal form",
        design_ref="DESIGN.md section 2, C14",
    ),
    "C55": dict(
        category="proof",
        text=("Frame conditions by taint: the setting that does not apply is replaced by an object whose every use raises, and the real dispatch code runs on symbolic inputs along every "
              "feasible path with the numerical kernels as opaque functions of what they receive (a tainted argument handed on counts as a read); where a setting is read the relational "
              "statement 'results for different values coincide' is proved instead.  Covered: singlet / QED dispatchers (iteration count, expansion order), non-singlet sector of quad_ker_qcd, "
              "N3LO variation and parametrisation below N3LO in gamma_ns / gamma_singlet / gamma_*_qed and in the polarised / time-like branches, QED-only arguments of quad_ker_ad and the "
              "coupling list for pure QCD, em-running flag of the couplings without QED (both methods), inversion method of forward matchings (OperatorMatrixElement, build_ome, parts.match)."),
        note=COMMON_NOTE + "Never-read settings give bitwise independence; the couplings clause compares two code paths over the reals. Whole solves are not compared.",
        technique="contract-based deductive verification: non-interference (taint) proofs by path-exhaustive symbolic execution, relational fallback with exact normal form",
        design_ref="DESIGN.md section 2, C55",
    ),
    "C30": dict(
        category="proof",
        text=("The real builders gamma_singlet_qed / gamma_valence_qed / gamma_ns_qed (and the per-order builders of as1..as4, fhmruvv, aem1, aem2) executed with symbolic N over "
              "opaque leaf splitting functions, every order (k,j) with k = 1..4, j = 1..2, nf = 3..6, both N3LO parametrisations: each pure-QCD entry is the embedding of gamma_singlet "
              "(photon row and column zero, Sigma_Delta == ns+), diag(nsV, ns-) resp. the QCD non-singlet entry of the sector; the up/down non-singlet entries at (0,1), (1,1) are "
              "e_q^2 times one function and at (0,2) e_q^2 g(e_q^2) with a common g."),
        note=COMMON_NOTE + "Leaf functions are uninterpreted (their values belong to C24-C27). Precondition for fhmruvv: qq and ns+ variation indices coincide.",
        technique="contract-based deductive verification: symbolic execution over uninterpreted callee contracts + exact normal form",
        design_ref="DESIGN.md section 2, C30",
    ),
    "C51": dict(
        category="proof",
        text=("(1) xi = 1: gamma_variation(_qed) and every expanded factor are the identity, Operator.mu2 and Lsv are unshifted, the varied kernel IS the unvaried kernel "
              "(orders 1-4, QED orders up to (4,2), all NS methods); (2) exponentiated: gamma'(a') == gamma(flow_{-L}(a')) mod a'^(n+1) with the coupling flow as a Lie series over "
              "generic beta coefficients and an arbitrary higher-order term; (3) expanded: K satisfies the flow equation d_L K + beta d_a K = K gamma on every coefficient it is built to "
              "(scalars, generic non-commuting 2x2 and 4x4 matrices; QED factors = QCD factor + a_em L gamma01 iff a_em runs); (4) non-singlet kernels end to end through the real "
              "quad_ker_qcd / ns.dispatcher, every method, orders 1-4: the lambda-series of the relative difference to the central kernel vanishes below lambda^n; "
              "(5) wiring: Lsv = ln(xi^2) of the coupling scales, matching ratios of the couplings scaled iff exponentiated, coupling lists on Operator.mu2. "
              "Known finding F16: in QED mode the coupling lists ignore the shifted scales. Coupling range of one operator for symbolic xi^2: exponentiated (xi^2 q2_from, xi^2 q2_to) on every stretch, expanded shifted only at the end of the stretch that reaches the target."),
        note=COMMON_NOTE + "Singlet sector through (2),(3) and the uniqueness lemma (trusted) with C08, C15/C16, C53; mixed QCDxQED terms and the threshold-crossing case are not covered.",
        technique="contract-based deductive verification: symbolic execution over truncated power series (Lie-series spec of the coupling flow) + exact polynomial normal form",
        design_ref="DESIGN.md section 2, C51",
    ),
    "C53": dict(
        category="proof",
        text=("Boundary-case logic that makes the operator of the last segment a continuous function of the target scale on the closed patch: "
              "(a) recipes._elements on symbolic atlases and targets (free, on the lower/upper matching scale with the lower/upper nf, on the initial scale), "
              "every path: a segment is flagged cliff iff it is followed by a matching (one defect repaired by a fix commit -- last segments ending on a "
              "matching scale were threshold operators); (b) parts.evolve forwards segment and flag; (c) Operator.mu2 coupling scales per scheme; "
              "(d) quad_ker_qcd / quad_ker_qed = [K(gamma, final couplings, L) x] E with the evolution kernels replaced by opaque contracts, orders 1-4, "
              "QED orders (1,1),(2,1),(3,2), all schemes; (e) the unity shortcut of Operator.compute is taken iff the kernel at equal scales is the identity. (a') recipes differing in the cliff flag only are different keys and recipes._create keeps both variants of the stretch ending on a matching scale."),
        note=COMMON_NOTE + "Lemma: a composition of continuous functions is continuous; E == 1 at equal couplings is C10, continuity of the couplings C15/C16. The quantitative O(epsilon) constant is not claimed.",
        technique="contract-based deductive verification: path-exhaustive symbolic execution with z3 + exact normal form, callee contracts by stubbing",
        design_ref="DESIGN.md section 2, C53",
    ),
    "C42": dict(
        category="proof",
        text=("flavor_reshape executed on fully symbolic operators, errors, rotations and inputs ((p,x) = (2,2), (3,1)): reshape(O,T,I) (.) (I f) = T (O (.) f) "
              "for the three branches on every path (paths that skip a rotation must satisfy it after substituting the path condition); to_evol / "
              "to_uni_evol apply the tables on the requested sides; xgrid_reshape contracts the matrix of the dispatcher on the operator grid with the "
              "output index and that of the dispatcher on the input grid with the input index (symbolic matrices for the get_interpolation contract), "
              "errors alike; xgrid_check skips only identical grids. One defect class (allclose shortcuts) repaired by a fix commit. Cases with the same new grid on both sides."),
        note=COMMON_NOTE + "Shape-bounded (value-unbounded). The grid statement for representable functions follows from the wiring with C34's reproduction lemma.",
        technique="contract-based deductive verification: path-exhaustive symbolic execution + exact normal form / z3",
        design_ref="DESIGN.md section 2, C42",
    ),
    "C34": dict(
        category="proof",
        text=("(1) block construction proved well-formed for ALL integers n > d >= 1 and every area (real loop body cut by an invariant, z3 LIA with div/mod); "
              "(2) Lagrange property of Area._compute_coefs on symbolic nodes for d <= 5 (6 thorough); (3) whole dispatcher on symbolic strictly increasing "
              "nodes (n <= 4 quick / 8 thorough, d <= 4, linear and log mode): partition of unity, Kronecker property, reproduction of monomials up to the "
              "degree, rows of get_interpolation, on every feasible evaluation path; (4) rejections; (5) re-interpolation to a grid of equal length "
              "reproduces linear functions on every path including the shortcut (one defect repaired by a fix commit); (6) the default N-space dispatcher (mode_N=True) evaluates in x-space "
              "like the x-space one at every node and mid-point of a linear grid (d = 1..3) and keeps its N-space callable."),
        note=COMMON_NOTE + "Lemma: a polynomial of degree <= d with d+1 zeros vanishes. Assumed: ln increasing, np.unique sorts/dedups. Preconditions: node spacing > 1e-14 and evaluation points outside the 10-eps window below a node (float tolerance of evaluate_x, not modelled). Whole-dispatcher clauses shape-bounded.",
        technique="contract-based deductive verification: invariant cut + z3 LIA; symbolic execution with z3 path feasibility + exact normal form",
        design_ref="DESIGN.md section 2, C34",
    ),
    "C43": dict(
        category="proof",
        text=("apply_pdf executed with the PDF as an uninterpreted function xf(pid,x,Q2), an enumerated set of missing flavours, a ghost EKO with fully "
              "symbolic (14,2,14,2) operators and errors on a 2-point symbolic grid: the result equals the contraction O[a,j,b,k] xf/x, with and without "
              "the rotation to the QCD / unified evolution basis (label order included) and with a symbolic re-interpolation matrix standing for "
              "get_interpolation (C34 contract); errors likewise, absent when the operator has none. The re-interpolation is built on the EKO's grid semantically (same nodes and same linear / logarithmic flag)."),
        note=COMMON_NOTE + "EKO replaced by a ghost map (C37); interpolation dispatcher by its contract (C34); einsum shape-uniformity.",
        technique="contract-based deductive verification: symbolic execution with uninterpreted PDF + exact normal form",
        design_ref="DESIGN.md section 2, C43",
    ),
    "C44": dict(
        category="proof",
        text=("ekos_product executed on ghost EKOs holding fully symbolic (2,2,2,2) operators and errors (non-commuting by construction): every new target equals "
              "dot4(op_fin, op_ini[match]) with the solver's error rule, existing targets are untouched, the match is looked up at the squared initial scale "
              "of the second EKO, in-place and new-archive variants agree, no match raises ValueError. One defect (reversed product, signed errors) was "
              "repaired by a fix commit."),
        note=COMMON_NOTE + "EKO / approx replaced by their contracts (C37).",
        technique="contract-based deductive verification: symbolic execution + exact normal form with abs atoms",
        design_ref="DESIGN.md section 2, C44",
    ),
    "C46": dict(
        category="proof",
        text=("project() executed on symbolic block data (with missing pids): equals sum e_i (e_i.d)/(e_i.e_i); for the PID and evolution tables (several "
              "subsets, complete sets) and for symbolic custom combinations made orthogonal by a Gram-Schmidt parametrisation: components kept, idempotent, "
              "complement removed, complete sets reproduce the data; input blocks unmodified."),
        note=COMMON_NOTE + "Custom combinations dimension-bounded (4 non-zero components, 2-3 vectors); subsets of labels are a chosen family, the algebraic argument is symbolic in the data.",
        technique="contract-based deductive verification: symbolic execution + exact normal form",
        design_ref="DESIGN.md section 2, C46",
    ),
    "C01": dict(
        category="proof",
        text=("Operator.compute is executed with q2_from and q2_to the same symbolic scale for every (order 1-4 x 0-2, nf 3-6, scale-variation "
              "setting allowed by the proviso, threshold flag) and the members are pushed through ad_to_evol_map and to_flavor_basis_tensor: every row "
              "of the flavour tensor is proved to be the unit row (photon: identity with QED, decoupled in pure QCD) and the error tensor zero, on "
              "every feasible path; integrate() is replaced by 'arbitrary members', so a shortcut not taken fails the goal."),
        note=COMMON_NOTE + "Operator built with object.__new__ (couplings not on the path). Grid size 2 (quick) / 1-3 (thorough): the construction is size-uniform. Quick tier runs a covering subset of the configuration product; thorough the full product.",
        technique="contract-based deductive verification: path-exhaustive symbolic execution of the real methods + exact normal form",
        design_ref="DESIGN.md section 2, C01",
    ),
    "C02": dict(
        category="proof",
        text=("_dot4 proved equal to the matrix contraction on fully symbolic tensors, _dotop's value/error rule, join = e_k ... e_1 for k = 1..7 over free "
              "non-commuting symbols, _elements = image of matched_path with cliff <=> target on a matching scale for all 16 (nf0,nff) pairs with symbolic "
              "scales on every feasible path, _create = duplicate-free union for several target patterns, and managed.solve's loop structure over ghost "
              "inventories: each recipe computed once, each target stored once as the ordered product of its parts. The recipe list of every target is also compared with the flavour-number path of the statement written independently of Atlas (heavy quark of each matching, inverse flag). commons.atlas builds the walls in quark order (also for ratios that put them out of ascending order) with the origin of the operator card."),
        note=COMMON_NOTE + "einsum shape-uniformity assumed; inventories as maps (C37); number of targets in _create bounded (1-3 targets, 5 equality patterns).",
        technique="contract-based deductive verification: symbolic tensors, free-algebra words, path-exhaustive execution with z3",
        design_ref="DESIGN.md section 2, C02",
    ),
    "C32": dict(
        category="proof",
        text=("For every label set produced by ad_to_evol_map (nf 3-6) and split_ad_to_evol_map (nf 3-5), QCD and QED, with one symbolic matrix per member, "
              "all 196 blocks of the value and error tensors returned by to_flavor_basis_tensor are proved equal to R+_out M R_in built independently from the "
              "documented flavour content of the labels; member-name sets checked against the statement."),
        note=COMMON_NOTE + "Grid-size uniformity (2x2 symbolic members); label specification typed in contracts/C31.py / C33.py.",
        technique="contract-based deductive verification: symbolic execution + exact normal form against an independently built specification tensor",
        design_ref="DESIGN.md section 2, C32",
    ),
    "C52": dict(
        category="proof",
        text=("With arbitrary symbolic members, the rows and columns of every heavy quark/antiquark that is not active (pid > nf for evolution parts, > nf+1 for "
              "matching parts) are proved to be unit vectors with zero error, for nf 3-6, QCD and QED; unit rows/columns are proved closed under the real "
              "_dot4 product; the path-level statement follows with C19 and C02 by induction (lemma). The parts of a path (real recipe list, symbolic atlases, all 16 pairs) never involve nf or a heavy quark above max(nf0, nff)."),
        note=COMMON_NOTE + "All solution methods and orders are covered at once because the member matrices are arbitrary.",
        technique="contract-based deductive verification: symbolic execution + exact normal form; closure lemma proved on the real contraction",
        design_ref="DESIGN.md section 2, C52",
    ),
    "C31": dict(
        category="proof",
        text=("Ground, exhaustive: both 14x14 rotation tables (row orthogonality, invertibility, every row equal to its documented flavour combination, "
              "label/pid/sector-map consistency) and, for nf 3-6 x {QCD, QED} x every sector label of the basis, the sector projector computed by the "
              "real code in exact rational arithmetic: members map source onto target, every other distribution of the nf-flavour basis is annihilated, "
              "diagonal projectors idempotent, mutually orthogonal and complete on the active parton space; ad_projectors returns one per sector. "
              "Three defects repaired (fix commits), one (odd-nf Sdelta/Vdelta weights) reported as KNOWN-FINDING."),
        note=COMMON_NOTE + "No symbolic input: the quantifier's domain is finite and enumerated completely; each fact is decided by exact evaluation (Fractions through the transformed code). The label specification is typed in the contract.",
        technique="contract-based verification by exhaustive exact evaluation of a finite domain through the transformed real code",
        design_ref="DESIGN.md section 2, C31",
    ),
    "C33": dict(
        category="proof",
        text=("Ground, exhaustive over nf 4-6 x {QCD, QED}: rotate_matching read as a matrix reproduces the flavour content of every new-basis label from the "
              "matching basis (old evolution basis + heavy-quark +- combinations, nf-dependent Sdelta/Vdelta weights), rotate_matching_inverse composes with "
              "it to the identity in both orders, and the key sets are exactly products of labels of the two bases."),
        note=COMMON_NOTE + "Finite domain enumerated completely in exact rational arithmetic; flavour contents typed in the contract from the label definitions.",
        technique="contract-based verification by exhaustive exact evaluation of a finite domain through the transformed real code",
        design_ref="DESIGN.md section 2, C33",
    ),
    "C15": dict(
        category="proof",
        text=("Every expanded coupling solution is executed in a Laurent-series ring in the reference coupling with u = beta0*ref*t held O(1): value at "
              "the reference point is the reference, and the coefficients ref^2..ref^(n+1) of the RGE residual da/dt + sum beta_k a^(k+2) vanish (orders "
              "1-3; for order 4 the top coefficient is a recorded known finding); LO: da/dt = -beta0 a^2 exactly and negative (z3); fixed- and "
              "running-alpha_em wrappers for nf 3-6 x orders (1-4,0-2): literature beta vectors, beta0 shift, t = ln(to/from), coupled RGE through second "
              "order; the right-hand sides and integration spans handed to solve_ivp by the exact methods equal the specification (solve_ivp assumed)."),
        note=COMMON_NOTE + "Lemma: uniqueness of the RGE solution. Assumed: scipy.integrate.solve_ivp. Known finding F07 (expanded_n3lo) is reported, not claimed.",
        technique="contract-based deductive verification: execution in a Laurent-series ring + formal differentiation + exact normal form; z3 for monotonicity",
        design_ref="DESIGN.md section 2, C15",
    ),
    "C16": dict(
        category="proof",
        text=("(i) decoupling constants c20, c30 (POLE, MSBAR) equal the Chetyrkin-Kniehl-Steinhauser values (exact forms in zeta2, zeta3, ln2; decimals to "
              "their printed digits); (ii) the residual of the RG identity d a'/dt + beta^(nf+1)(a') for a' = a(1 + sum a^n C_n(L)) vanishes through "
              "O(a^4) as a polynomial identity in (nf, L) for both schemes, generated mechanically in a series ring with the code's own beta/gamma_m "
              "(mass running included for MSBAR); (iii) unit factor at ratio 1 for LO/NLO; (v) Couplings.a executed over symbolic scales, walls and "
              "ratios for all 16 (nf_ref, nf_to) pairs, both schemes, orders 1-4, every isclose() path: equals the composition of the solver F and the "
              "matching factors along Atlas.path with the right ratio, coefficients and coupling. Downward = inverse is C22."),
        note=COMMON_NOTE + "Literature constants typed in the contract (self-checked against printed decimals). Solver compute() replaced by an uninterpreted F (its own contract: C15/C17). Scales assumed above the tau mass for (v). Quick tier: orders 2 and 4 (+ the 3<->6 pairs for all orders).",
        technique="contract-based deductive verification: series-ring RG residual + path-exhaustive symbolic execution against a specification built from Atlas.path",
        design_ref="DESIGN.md section 2, C16",
    ),
    "C17": dict(
        category="proof",
        text=("Cache invariant of Couplings: a miss calls exactly the solver selected by (method, alphaem_running), stores a copy and returns a distinct "
              "object; a hit recomputes nothing and returns a fresh copy equal to the stored value even after the caller mutated earlier results; the "
              "key contains every argument that reaches the solver; a() leaves self.a_ref and every cached value untouched although it scales its "
              "result in place, and returns the same term with a cold and a warm cache. With the induction lemma this is history independence."),
        note=COMMON_NOTE + "Object identity / memory sharing are decided on the real Python objects inside the harness; solvers are uninterpreted pure functions (their purity is by inspection: module-level numba functions and scipy calls).",
        technique="contract-based deductive verification: class invariant on a ghost view of the cache, checked on the real methods over symbolic values",
        design_ref="DESIGN.md section 2, C17",
    ),
    "C08": dict(
        category="proof",
        text=("NS: the expanded, truncated and ordered-truncated kernels are executed on couplings a = lambda*alpha in a truncated series ring and "
              "the coefficients lambda^0..lambda^(n-1) of their difference to the code's exact kernel are proved zero (orders 2-4, arbitrary beta "
              "vector; order 4 through the roots contract), plus dispatcher wiring for nf 3-6. Singlet: r_vec satisfies R(a)P(a)=gamma(a)/beta0 for "
              "any ev_op_max_order (invariant cut), u_vec's update satisfies the U-matrix recurrence for arbitrary kk (inlined projector algebra), "
              "sum_u is the polynomial sum, eko_truncated equals the truncated product U(a1)E0 U(a0)^-1 on generic 3x3 matrices, every step of "
              "eko_perturbative multiplies by U(ah)E0(ah,al)U(al)^-1 for any iteration count. With the U-matrix lemma this is the statement."),
        note=COMMON_NOTE + "Trusted lemma: U-matrix ansatz (EKL/PEGASUS). Inner accumulation loop of u_vec bounded to kk in {1,2,3,5}. Decompose methods only in the commuting limit (C09).",
        technique="contract-based deductive verification: execution over truncated series + modular contracts + invariant cuts + exact normal form",
        design_ref="DESIGN.md section 2, C08",
    ),
    "C09": dict(
        category="proof",
        text=("Singlet dispatcher executed on gamma_k = diag(p_k, q_k) with symbolic entries: for LO, decompose-exact/expanded, truncated and "
              "ordered-truncated the diagonal entries are proved equal to the non-singlet dispatcher of the same method on p resp. q and the "
              "off-diagonal entries to vanish (sqrt((P-Q)^2) through a sign atom: both branches); iterate-* and perturbative-*: diagonal for any "
              "iteration count (loop invariant); iterate-*: [0,0] independent of q and [1,1] the same function of q for 1-2 iterations (bounded). "
              "One known finding (singlet ordered-truncated = truncated kernel) is reported as KNOWN-FINDING."),
        note=COMMON_NOTE + "Order-4 integrals and cubic roots opaque (both sectors call them with identical arguments). Not claimed: closeness of iterate/perturbative to the closed-form NS kernels; entrywise clause for perturbative-*. Quick tier nf in {3,6}.",
        technique="contract-based deductive verification: symbolic execution on structured input + exact normal form with sign atoms + loop invariants",
        design_ref="DESIGN.md section 2, C09",
    ),
    "C10": dict(
        category="proof",
        text=("(i) K(a0,a0) = 1 for every NS and singlet method x order x nf through the dispatchers (exact order 4 with opaque roots), and for the QED "
              "NS / singlet / valence kernels with coinciding couplings and scales for ANY number of steps (loop invariants); (ii) K(a2,a1)K(a1,a0) = "
              "K(a2,a0) for the NS exact, expanded and ordered-truncated families (exponent additivity with ln-splitting justified by z3-proved "
              "positivity; order-4 exact through dD/da2 = 0 and D(a2=a1) = 0) and for the LO singlet kernel (sign atoms for the three square roots)."),
        note=COMMON_NOTE + "Lemmas: MatExp(0)=1; loop-invariant induction; FTC for the order-4 composition (no branch cut crossed). Not claimed: composition of the iterated singlet kernel up to discretisation error.",
        technique="contract-based deductive verification: symbolic execution + exact normal form with log/exp/sqrt atom laws + loop invariants",
        design_ref="DESIGN.md section 2, C10",
    ),
    "C11": dict(
        category="proof",
        text=("With v.gamma_k = 0 imposed by parametrisation for a symbolic row vector v, v.K = v is proved for every singlet kernel through the "
              "dispatcher (8 methods x orders 1-4 x nf), the QED singlet/valence iterated kernels, all scale-variation kernels and re-expanded "
              "anomalous dimensions (QCD and QED), and build_ome (forward/expanded/exact). Iterated and perturbative kernels are proved for ANY "
              "ev_op_iterations and ANY ev_op_max_order by inductive loop invariants (the real loop bodies are cut by an AST transform and executed "
              "for an arbitrary iteration over abstract arrays); callers are checked against callee contracts (exp_matrix_2D, r_vec, u_vec, sum_u), "
              "each proved on the callee's own body."),
        note=COMMON_NOTE + "Lemmas: loop-invariant induction; v.M=0 => v.MatExp(M)=v (power series) for the LAPACK-based exp_matrix (tied to MatExp by C23 relative to the eig contract). Evolution integrals enter the decompose kernels as arbitrary scalars; cubic roots opaque. Quick tier: nf in {4,6}; thorough: nf 3-6.",
        technique="contract-based deductive verification: modular contracts + inductive loop invariants (T4 cut) + exact normal form with sign atoms",
        design_ref="DESIGN.md section 2, C11",
    ),
    "C22": dict(
        category="proof",
        text=("build_ome forward x expanded-backward = 1 + O(a^(n+1)) in both orders for n=0..3 with generic symbolic 2x2 and 3x3 matching matrices "
              "(complete for the free algebra at degree <= 3), exact-backward = exact inverse; invert_matching_coeffs composes with arbitrary symbolic "
              "decoupling coefficients to x + O(x^5) (series ring), same for the concrete POLE/MSBAR tables for all nf, and F_up F_down = 1 + O(a^4) "
              "for the MSbar mass decoupling factors. The tables are also checked where they are used: Couplings.a with the running switched off, up across a threshold and down again, returns a + O(a^(order+1)) (series ring, both schemes, orders 2-4)."),
        note=COMMON_NOTE + "Amitsur-Levitzki lemma (no polynomial identity of degree < 4 for 2x2 matrices). Quick tier skips the 3x3 exact inverse at n>=2.",
        technique="contract-based deductive verification: symbolic execution over generic matrices and truncated series + exact normal form",
        design_ref="DESIGN.md section 2, C22",
    ),
    "C23": dict(
        category="proof",
        text=("exp_matrix_2D on a fully symbolic 2x2 matrix: projector algebra, completeness, spectral reconstruction, trace/determinant of the eigenvalues "
              "and exp = sum exp(l_i) e_i as polynomial identities modulo the defining relation of the square root (valid over C, either branch); "
              "exp_matrix (dims 2, 4) relative to the assumed LAPACK eig contract imposed by the parametrisation M := V diag(w) V^-1. With the spectral-"
              "calculus lemma this is 'equals the matrix exponential'. Accuracy of LAPACK is not covered. Six concrete complex 2x2 matrices (three with a purely imaginary discriminant) are run natively against the power series of exp and the projector algebra (bounded part)."),
        note=COMMON_NOTE + "Assumed: np.linalg.eig returns a diagonalising pair; lemma spectral calculus.",
        technique="contract-based deductive verification: symbolic execution + exact normal form modulo radical relations",
        design_ref="DESIGN.md section 2, C23",
    ),
    "C07": dict(
        category="proof",
        text=("For each exact non-singlet kernel the returned term is shown to be exp(X) with dX/da1 * beta_n(a1) = gamma_n(a1) and X(a0,a0)=0 "
              "as rational-function identities in (a0,a1,gamma_k,beta_k) (orders 1-3 with arbitrary real beta vector; order 4 with the cubic "
              "roots replaced by the contract of roots() via a Vieta parametrisation); the dispatcher is proved to hand the literature beta "
              "vector to the right kernel for nf 3-6 and every exact method; fixed-alpha_em QED kernel: same with shifted beta0, contracted "
              "gammas and the pure-QED factor. With FTC + ODE uniqueness (trusted lemmas) this is the statement for all inputs."),
        note=COMMON_NOTE + "Lemmas: chain rule, FTC, uniqueness of linear ODE solutions. Assumed: np.real(delta/Delta) is the identity; no branch cut of the complex logs is crossed at order 4; denominators non-zero in the perturbative range.",
        technique="contract-based deductive verification: symbolic execution + formal differentiation + exact polynomial normal form; modular use of the roots() contract",
        design_ref="DESIGN.md section 2, C07",
    ),
    "C13": dict(
        category="proof",
        text=("Every exact integral: derivative w.r.t. a1 times the truncated beta function equals a1^k, and value 0 at a1=a0 (FTC lemma) -- "
              "including j34/j24 with the sqrt(4 b2 - b1^2) atom reduced by its defining relation (valid for real and imaginary Delta) and "
              "the order-4 integrals for arbitrary roots; every expanded integral equals the termwise-integrated Taylor polynomial generated "
              "mechanically from the integrand; roots(): all three Vieta relations (hence exactly the three roots, any branch of the radicals)."),
        note=COMMON_NOTE + "Lemma FTC. Atom relations sqrt^2, cbrt^3, I^2=-1. Float cancellation behaviour (nf=6) is not modelled (A1).",
        technique="contract-based deductive verification: formal differentiation of the executed term + exact normal form modulo radical relations",
        design_ref="DESIGN.md section 2, C13",
    ),
    "C19": dict(
        category="proof",
        text=("Atlas.path / matched_path / nf_default executed symbolically for all 16 (+4 default-nf) pairs x 4 patterns of infinite walls with "
              "symbolic scales (0 <= c <= b <= t, coincident allowed); every feasible path (z3) is checked clause by clause against the statement; "
              "structural clauses are identities of terms, nf_default is an LRA obligation."),
        note=COMMON_NOTE + "np.digitize modelled as #{bins <= x}; infinity as a maximal element that only supports comparisons.",
        technique="contract-based deductive verification: path-exhaustive symbolic execution with z3 feasibility + LRA obligations",
        design_ref="DESIGN.md section 2, C19",
    ),
    "C21": dict(
        category="proof",
        text=("The specification series A(a',L), the re-expanded anomalous dimensions and the truncated path-ordered exponential are generated "
              "mechanically (Picard iteration in a truncated series ring) from the RG equation; gamma_variation, the expanded kernels "
              "(commuting symbols and free non-commuting symbols, abstract matrix dimension) and all QED variants (orders (1-4,0-2), running "
              "on/off) are executed on symbolic input and proved equal coefficient by coefficient in L, for symbolic nf; 'always returns' "
              "is the implicit no-None/no-exception clause."),
        note=COMMON_NOTE + "Lemma: uniqueness of formal power-series solutions of the RG ODEs. Literature beta coefficients from C20's table.",
        technique="contract-based deductive verification: symbolic execution over truncated series and the free algebra + exact normal form",
        design_ref="DESIGN.md section 2, C21",
    ),
    "C20": dict(
        category="proof",
        text=("Every coefficient function of eko/beta.py and eko/gamma.py is executed symbolically (nf a real indeterminate for QCD; "
              "every nf in 0..6 with symbolic lepton number for the QED/mixed ones, which use nf//2) and the returned polynomial is "
              "proved identical to the literature polynomial by exact normal form; dispatchers and b_qcd/b_qed included. Holds for "
              "all nf, not only deg+1 points."),
        note=COMMON_NOTE + "The literature table is typed in contracts/C20.py (exact forms; self-checked against the printed decimal forms of VLR 1997 eq.16 / vRVL 1997 eq.10 on every run). zeta values are uninterpreted atoms.",
        technique="contract-based deductive verification: symbolic execution of the real functions + exact polynomial normal form (poly-NF)",
        design_ref="DESIGN.md section 2, C20",
    ),
}

NA = {
    "C05": "1%-tolerance integrals of interpolated x-space PDFs: no exact postcondition; quadrature in floats (Mellin core covered by C11/C25)",
    "C06": "'within interpolation accuracy, shrinking under refinement': asymptotic numerics (exact composition facts are covered by C02/C10/C22)",
    "C12": "convergence rate of iterated/perturbative discretisations towards a solution without closed form: no finite pre/postcondition decides it",
    "C28": "Python-vs-Rust equivalence: no Rust verifier installed; would be translation validation (different family)",
    "C35": "accuracy of numerical contour integration (scipy.integrate.quad) is outside the verifier's reach",
    "C48": "numba compiler output vs Python definition: compiler semantics, not function contracts",
    "C50": "needs exact RG identities for all N3LO ingredients; otherwise x-space numerics",
    "C54": "Rust reader: no Rust verifier; cross-language I/O",
}

ALL = [f"C{i:02d}" for i in range(1, 56)]


def main():
    checks = []
    for pid in ALL:
        if pid not in CLAIMED:
            continue
        c = CLAIMED[pid]
        checks.append(dict(
            property_id=pid,
            quick_cmd=f"./vc check {pid} --tier quick",
            thorough_cmd=f"./vc check {pid} --tier thorough",
            evidence_file=f"evidence/{pid}.json",
            replay_cmd_template="./vc replay {path}",
            engine="pyvc",
            level_claimed=dict(category=c["category"], text=c["text"], design_ref=c["design_ref"]),
            level_note=c["note"],
            technique=c["technique"],
        ))
    na = []
    for pid in ALL:
        if pid in CLAIMED:
            continue
        na.append(dict(property_id=pid, reason=NA.get(pid, "planned in DESIGN.md (contract-based check), not built and validated yet -- not claimed")))
    base = json.load(open("/root/.vp/BASELINE.json"))
    man = dict(
        version=1,
        setup_cmd="./setup.sh",
        hooks=dict(guard="EKO_VERIF", enable="none needed: contracts are sidecar files under /verif/contracts and the AST transform happens at import time inside the verifier's own process; /repo is read, never instrumented",
                   baseline_off_cmd=base["cmd"].replace("--junitxml=<file>", "").strip(), source_commits=[], add_only=True),
        engines=[dict(name="pyvc", path="pyvc/", serves_properties=sorted(CLAIMED),
                      kind_free_text="home-made deductive verifier for the numba subset of Python: import hook re-reads and AST-transforms the real source each run, CPython executes it over a symbolic term IR, obligations from sidecar contracts are discharged by exact polynomial normal form, z3 and cvc5")],
        checks=checks,
        not_applicable=na,
        notes="See DESIGN.md. Fix commits in /repo are listed in known_findings.json (status fixed).",
    )
    with open(os.path.join(VERIF, "MANIFEST.json"), "w") as f:
        json.dump(man, f, indent=1)
    print(f"MANIFEST.json: {len(checks)} checks, {len(na)} not_applicable")


if __name__ == "__main__":
    main()
