#!/usr/bin/env python3
"""Generates /verif/MANIFEST.json from the tables below (run after adding/removing a claimed property)."""
import json
import os

VERIF = os.path.dirname(os.path.dirname(os.path.abspath(__file__)))

COMMON_NOTE = ("Trusted base: pyvc engine (AST transform T1-T3 of the real source re-read from /repo/src on every run; term IR; exact "
               "polynomial normal form; z3 5.1 / cvc5 1.0); global assumptions A1 (floats as exact reals), A2 (identities over Q(generators) "
               "lift to C), A3 (integer powers), A4 (path forking via z3), A5 (numpy shim contracts, listed per run in evidence.trusted_base). ")

CLAIMED = {
    "C20": dict(
        category="proof",
        text=("Every coefficient function of eko/beta.py and eko/gamma.py is executed symbolically (nf a real indeterminate for QCD; "
              "every nf in 0..6 with symbolic lepton number for the QED/mixed ones, which use nf//2) and the returned polynomial is "
              "proved identical to the literature polynomial by exact normal form; dispatchers and b_qcd/b_qed included. Holds for "
              "all nf, not only deg+1 points."),
        note=COMMON_NOTE + "The literature table is typed in contracts/C20.py (exact forms; self-checked against the printed decimal forms of VLR 1997 eq.16 / vRVL 1997 eq.10 on every run). zeta values are uninterpreted atoms.",
        technique="contract-based deductive verification: symbolic execution of the real functions + exact polynomial normal form (poly-NF)",
        design_ref="DESIGN.md section 2, C20",
    ),
}

NA = {
    "C03": "schedule/worker-count/target-order independence with bitwise equality: concurrency and float reproducibility are outside contract verification of sequential real-arithmetic semantics",
    "C05": "1%-tolerance integrals of interpolated x-space PDFs: no exact postcondition; quadrature in floats (Mellin core covered by C11/C25)",
    "C06": "'within interpolation accuracy, shrinking under refinement': asymptotic numerics (exact composition facts are covered by C02/C10/C22)",
    "C12": "convergence rate of iterated/perturbative discretisations towards a solution without closed form: no finite pre/postcondition decides it",
    "C27": "N -> infinity asymptotics of parametrised expressions: no contract at finite N expresses it",
    "C28": "Python-vs-Rust equivalence: no Rust verifier installed; would be translation validation (different family)",
    "C35": "accuracy of numerical contour integration (scipy.integrate.quad) is outside the verifier's reach",
    "C41": "the only specification of 'equivalent legacy upgrade' is a restatement of the converter; no fixtures in this snapshot",
    "C45": "needs LHAPDF tooling and a full solve; the reachable pure sliver cannot carry the statement",
    "C47": "two OS processes with different hash seeds: whole-process property",
    "C48": "numba compiler output vs Python definition: compiler semantics, not function contracts",
    "C49": "click CLI and files on disk: no function-level contract within the verifier's subset",
    "C50": "needs exact RG identities for all N3LO ingredients; otherwise x-space numerics",
    "C54": "Rust reader: no Rust verifier; cross-language I/O",
}

ALL = [f"C{i:02d}" for i in range(1, 56)]


def main():
    checks = []
    for pid in ALL:
        if pid not in CLAIMED:
            continue
        c = CLAIMED[pid]
        checks.append(dict(
            property_id=pid,
            quick_cmd=f"./vc check {pid} --tier quick",
            thorough_cmd=f"./vc check {pid} --tier thorough",
            evidence_file=f"evidence/{pid}.json",
            replay_cmd_template="./vc replay {path}",
            engine="pyvc",
            level_claimed=dict(category=c["category"], text=c["text"], design_ref=c["design_ref"]),
            level_note=c["note"],
            technique=c["technique"],
        ))
    na = []
    for pid in ALL:
        if pid in CLAIMED:
            continue
        na.append(dict(property_id=pid, reason=NA.get(pid, "planned in DESIGN.md (contract-based check), not built and validated yet -- not claimed")))
    base = json.load(open("/root/.vp/BASELINE.json"))
    man = dict(
        version=1,
        setup_cmd="./setup.sh",
        hooks=dict(guard="EKO_VERIF", enable="none needed: contracts are sidecar files under /verif/contracts and the AST transform happens at import time inside the verifier's own process; /repo is read, never instrumented",
                   baseline_off_cmd=base["cmd"].replace("--junitxml=<file>", "").strip(), source_commits=[], add_only=True),
        engines=[dict(name="pyvc", path="pyvc/", serves_properties=sorted(CLAIMED),
                      kind_free_text="home-made deductive verifier for the numba subset of Python: import hook re-reads and AST-transforms the real source each run, CPython executes it over a symbolic term IR, obligations from sidecar contracts are discharged by exact polynomial normal form, z3 and cvc5")],
        checks=checks,
        not_applicable=na,
        notes="See DESIGN.md. Fix commits in /repo are listed in known_findings.json (status fixed).",
    )
    with open(os.path.join(VERIF, "MANIFEST.json"), "w") as f:
        json.dump(man, f, indent=1)
    print(f"MANIFEST.json: {len(checks)} checks, {len(na)} not_applicable")


if __name__ == "__main__":
    main()
