import ast, sys
src = open(sys.argv[1]).read()
t = ast.parse(src)
for n in ast.walk(t):
    if isinstance(n, (ast.FunctionDef, ast.ClassDef, ast.Module)) and n.body and isinstance(n.body[0], ast.Expr) and isinstance(getattr(n.body[0], 'value', None), ast.Constant) and isinstance(n.body[0].value.value, str):
        n.body = n.body[1:] or [ast.Pass()]
# also drop bare string expressions (attribute docstrings)
class D(ast.NodeTransformer):
    def visit_Expr(self, n):
        if isinstance(n.value, ast.Constant) and isinstance(n.value.value, str): return None
        return n
t = D().visit(t)
print(ast.unparse(t))
