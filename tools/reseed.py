#!/usr/bin/env python3
"""Re-run checks against a stored seeded change (seeded/<name>/patch.diff applied to a scratch copy of /repo/src) and refresh the 'checks' / 'detected_by' fields of its meta.json.

usage: tools/reseed.py <name> <pid> [pid ...]
"""
import json
import os
import shutil
import subprocess
import sys
import tempfile

VERIF = os.path.dirname(os.path.dirname(os.path.abspath(__file__)))


def main():
    name, *pids = sys.argv[1:]
    d = os.path.join(VERIF, "seeded", name)
    meta = json.load(open(os.path.join(d, "meta.json")))
    scratch = tempfile.mkdtemp(prefix="reseed_")
    try:
        shutil.copytree("/repo/src", scratch + "/src", ignore=shutil.ignore_patterns("__pycache__", "*.pyc"))
        r = subprocess.run(["patch", "-p1", "-s", "-i", os.path.join(d, "patch.diff")], cwd=scratch, capture_output=True, text=True)
        if r.returncode:
            print("patch does not apply:", (r.stdout + r.stderr)[:300])
            return 2
        for p in pids:
            env = dict(os.environ, PYVC_OUT_DIR=f"{scratch}/out_{p}", PYVC_NF_BUDGET="400")
            c = subprocess.run(["./vc", "check", p, "--tier", "quick", "--repo-src", scratch + "/src"], cwd=VERIF, capture_output=True, text=True, env=env, timeout=5400)
            viol = [l for l in c.stdout.splitlines() if l.startswith("VIOLATION")]
            obl = [l.strip() for l in c.stdout.splitlines() if l.strip().startswith("obligation ")]
            meta.setdefault("checks", {})[p] = dict(exit=c.returncode, violations=len(viol), replayed=sum(1 for l in viol if "no-failing-input-found" not in l), first_obligations=obl[:3],
                                                    summary=([l for l in c.stdout.strip().splitlines() if l.startswith(p + " [")] or [""])[-1])
            print(p, c.returncode, meta["checks"][p]["summary"])
    finally:
        shutil.rmtree(scratch, ignore_errors=True)
    meta["detected_by"] = [p for p, r in meta["checks"].items() if r["exit"] == 1]
    json.dump(meta, open(os.path.join(d, "meta.json"), "w"), indent=1)
    print("detected by:", meta["detected_by"])
    return 0


if __name__ == "__main__":
    sys.exit(main())
