#!/bin/bash
# run every claimed check of MANIFEST.json (tier $1 = quick|thorough, $2 = parallel jobs) against /repo and print one line per property
cd "$(dirname "$0")/.."
TIER=${1:-quick}; J=${2:-4}
export VERIF_SEED=${VERIF_SEED:-1}
jq -r '.checks[].property_id' MANIFEST.json | xargs -P "$J" -I{} sh -c './vc check {} --tier '"$TIER"' 2>&1 | grep "^{} \[\|^VIOLATION\|^CHECKER-ERROR\|^KNOWN-FINDING" | cut -c1-240'
