#!/usr/bin/env python3
"""Confirm a seeded property-breaking change and run the checks against it.

usage: tools/seed.py <name> <property> <worktree> <patch.diff> <demo.py> "<needs>" "<tests subset>" [check pids...]

 1. in the scratch worktree: demo passes on the clean tree, fails with the patch, the given test subset passes with the patch
 2. applies the patch to a scratch copy of /repo/src (never to /repo), runs ./vc check --repo-src on it for each pid (default: the property)
 3. writes /verif/seeded/<name>/{patch.diff, demo.py, meta.json}
"""
import json
import os
import shutil
import subprocess
import sys

VERIF = os.path.dirname(os.path.dirname(os.path.abspath(__file__)))


def sh(cmd, cwd=None, env=None, timeout=3600):
    e = dict(os.environ)
    if env:
        e.update(env)
    p = subprocess.run(cmd, shell=True, cwd=cwd, env=e, capture_output=True, text=True, timeout=timeout)
    return p.returncode, (p.stdout + p.stderr)


def main():
    name, pid, wt, patch, demo, needs, tests = sys.argv[1:8]
    pids = sys.argv[8:] or [pid]
    env = {"NUMBA_DISABLE_JIT": "1", "PYTHONPATH": f"{wt}/src"}
    ran = []
    sh("git checkout -- .", cwd=wt)
    rc0, out0 = sh(f"/venv/bin/python {demo}", cwd="/tmp", env=env)
    ran.append(f"clean tree: demo exit {rc0}")
    rc, out = sh(f"git apply {patch}", cwd=wt)
    if rc:
        print("patch does not apply:", out)
        return 2
    rc1, out1 = sh(f"/venv/bin/python {demo}", cwd="/tmp", env=env)
    ran.append(f"patched tree: demo exit {rc1}")
    rct, outt = sh(f"/venv/bin/python -m pytest -q -p no:cacheprovider {tests}", cwd=wt, env=env)
    tail = [l for l in outt.strip().splitlines() if "passed" in l or "failed" in l or "error" in l][-1:] or outt.strip().splitlines()[-1:]
    ran.append(f"patched tree: pytest {tests}: exit {rct} ({tail[0] if tail else ''})")
    sh("git checkout -- . && git clean -fdq", cwd=wt)
    confirmed = rc0 == 0 and rc1 != 0 and rct == 0
    print("\n".join(ran), "\nconfirmed:", confirmed)
    results = {}
    import tempfile

    scratch = tempfile.mkdtemp(prefix="seedsrc_")
    shutil.copytree("/repo/src", scratch + "/src", ignore=shutil.ignore_patterns("__pycache__", "*.pyc"))
    rc, out = sh(f"patch -p1 -s -i {os.path.abspath(patch)}", cwd=scratch)
    if rc:
        print("patch does not apply to a copy of /repo/src:", out)
        shutil.rmtree(scratch, ignore_errors=True)
        return 2
    try:
        for p in pids:
            tmp = f"{scratch}/out_{p}"
            rcc, outc = sh(f"./vc check {p} --tier quick --repo-src {scratch}/src", cwd=VERIF, env={"PYVC_OUT_DIR": tmp, "PYVC_NF_BUDGET": "400"})
            viol = [l for l in outc.splitlines() if l.startswith("VIOLATION")]
            obl = [l.strip() for l in outc.splitlines() if l.strip().startswith("obligation ")]
            results[p] = dict(exit=rcc, violations=len(viol), replayed=sum(1 for l in viol if "no-failing-input-found" not in l),
                              first_obligations=obl[:3], summary=([l for l in outc.strip().splitlines() if l.startswith(p + " [")] or outc.strip().splitlines()[-1:] or [""])[-1])
            print(p, results[p]["exit"], results[p]["summary"])
            for l in obl[:3]:
                print("   ", l[:200])
    finally:
        shutil.rmtree(scratch, ignore_errors=True)
    d = os.path.join(VERIF, "seeded", name)
    os.makedirs(d, exist_ok=True)
    shutil.copy(patch, os.path.join(d, "patch.diff"))
    shutil.copy(demo, os.path.join(d, "demo.py"))
    meta = dict(name=name, breaks_property=pid, needs_to_manifest=needs, confirmed=confirmed, what_was_run=ran,
                demo_cmd=f"cd /tmp && NUMBA_DISABLE_JIT=1 PYTHONPATH=<tree>/src /venv/bin/python demo.py", checks=results,
                detected_by=[p for p, r in results.items() if r["exit"] == 1], source="independent sub-agent given only the property text")
    with open(os.path.join(d, "meta.json"), "w") as f:
        json.dump(meta, f, indent=1)
    print("detected by:", meta["detected_by"])
    return 0


if __name__ == "__main__":
    sys.exit(main())
