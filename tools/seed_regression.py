#!/usr/bin/env python3
"""Re-run every stored seeded change (seeded/<name>/patch.diff) on a scratch copy of /repo/src against the check that is recorded to detect it; expected exit 1.
usage: tools/seed_regression.py [workers [regex on the seed name]]"""
import json, os, re, subprocess, glob, sys, shutil, tempfile
from concurrent.futures import ThreadPoolExecutor
os.chdir('/verif')
done = {}
def one(d):
    name=os.path.basename(d.rstrip('/'))
    meta=json.load(open(d+'meta.json'))
    pids=meta.get('detected_by') or [meta['breaks_property']]
    pid=pids[0]
    tmp=tempfile.mkdtemp(prefix='sr_')
    try:
        shutil.copytree('/repo/src', tmp+'/src', ignore=shutil.ignore_patterns('__pycache__','*.pyc'))
        r=subprocess.run(['git','apply','--directory='+os.path.relpath(tmp,'/') if False else '-p1', d+'patch.diff'],cwd=tmp,capture_output=True,text=True)
        if r.returncode:
            r=subprocess.run(['patch','-p1','-i',d+'patch.diff'],cwd=tmp,capture_output=True,text=True)
            if r.returncode:
                return (name,pid,'PATCH-DOES-NOT-APPLY',(r.stdout+r.stderr).strip()[:150])
        env=dict(os.environ, PYVC_OUT_DIR=tmp+'/out', PYVC_NF_BUDGET='400')
        c=subprocess.run(['./vc','check',pid,'--tier','quick','--repo-src',tmp+'/src'],capture_output=True,text=True,env=env,timeout=5400)
        last=[l for l in c.stdout.splitlines() if l.startswith(pid+' [')]
        return (name,pid,c.returncode,last[-1][:110] if last else c.stdout[-200:])
    finally:
        shutil.rmtree(tmp,ignore_errors=True)
dirs=[d for d in sorted(glob.glob('/verif/seeded/*/')) if (len(sys.argv)<3 or re.search(sys.argv[2], d))]
with ThreadPoolExecutor(max_workers=int(sys.argv[1]) if len(sys.argv)>1 else 3) as ex:
    res=[]
    for r in ex.map(one, dirs):
        res.append(r); print(r,flush=True)
bad=[r for r in res if r[2]!=1]
print("NOT DETECTED / PROBLEM:",bad)
